//@ fn ObjectHeader::new
//@ spec
    ensures res == (ObjectHeader { size, next, is_empty: false, name_len: name@.len() as usize, data_len: data@.len() as usize }),
//@ fn ObjectHeader::new_empty
//@ spec
    ensures res == (ObjectHeader { size, next, is_empty: true, name_len: 0, data_len: 0 }),
//@ fn usize_to_u64
//@ spec
    ensures res == value,
//@ fn Archive::min_object_size
//@ spec
    requires name_len < lim(), data_len < lim(), ms::<Meta>() < lim(),
    ensures res == hs() + name_len + ms::<Meta>() + data_len,
//@ fn Archive::page_object_size
//@ spec
    requires name@.len() < lim(), data@.len() < lim(), ms::<Meta>() < lim(),
    ensures res == page_size(hs() + name@.len() + ms::<Meta>() + data@.len()),
//@ entry
        proof { reveal(page_size); }
//@ fn Archive::fits
//@ spec
    requires object_size + hs() <= u64::MAX,
    ensures res == fits_spec(empty_size as int, object_size as int),
//@ fn Archive::publish_replace
//@ spec
    requires
        wf(*old(self)),
        name@.len() < lim(), data@.len() < lim(), ms::<Meta>() < lim(),
        hash == hash_spec(old(self).meta, name@),
        // the name is not in the archive
        !has_name(*old(self), name@),
        // (empty, start) is a block of the empty chain into which the object fits
        ec(*old(self)).contains(start.v), empty == hdr(old(self).file, start.v),
        fits_spec(empty.size as int, psize::<Meta>(name@, data@)),
    ensures
        final(self).meta == old(self).meta,
        res is Ok ==> publish_post(*old(self), *final(self), name@, meta.enc(), data@, start.v),
        res is Ok ==> ({
            let e0 = ec(*old(self));
            let rest = without(e0, e0.index_of(start.v));
            let rem = (start.v + psize::<Meta>(name@, data@)) as u64;
            // C26 (2): the reused block leaves the empty chain; what is left of it becomes the new head
            // of the chain; every other empty block stays on the chain, in order
            ec(*final(self)) == if empty.size > psize::<Meta>(name@, data@) { cons(rem, rest) } else { rest }
        }),
//@ entry
        let ghost a0 = *self;
        let ghost e0 = ec(a0);
        let ghost bs0 = bcs(a0);
        let ghost s = start.v;
        let ghost k = e0.index_of(s);
        let ghost ps = psize::<Meta>(name@, data@);
        proof {
            broadcast use hash_in_range;
            lemma_page_size(hs() + name@.len() + ms::<Meta>() + data@.len());
            lemma_lay_facts(a0, e0, bs0, Seq::empty());
            lemma_frame_all();
            assert(0 <= k < e0.len() && e0[k] == s);
            assert(member(a0, e0, bs0, Seq::empty(), s));
        }
//@ tail
        proof {
            assert(self.meta == a0.meta && self.file.size == a0.file.size);
            let a5 = *self;
            let h = hash as int;
            let nl = name.len(); let dl = data.len();
            let es = hdr(a0.file, s).size;
            let e1 = without(e0, k);
            assert(member(a0, e0, bs0, Seq::empty(), s));
            assert(block_ok(a0, s));
            assert(hdr(a0.file, s).next == ptr(e0, k + 1));
            if k > 0 {
                assert(member(a0, e0, bs0, Seq::empty(), e0[k - 1]));
                assert(block_ok(a0, e0[k - 1]));
                assert(e0[k - 1] != e0[k]);
                assert(e0[k - 1] + hdr(a0.file, e0[k - 1]).size <= s || s + es <= e0[k - 1]);
            }
            assert forall|p: u64| #[trigger] member(a0, e0, bs0, Seq::empty(), p) && p != s && (k > 0 ==> p != e0[k - 1])
                implies same_obj(a0, a5, p) by {
                assert(block_ok(a0, p));
                assert(p + hdr(a0.file, p).size <= s || s + es <= p);
                if k > 0 { assert(p + hdr(a0.file, p).size <= e0[k - 1] || e0[k - 1] + hdr(a0.file, e0[k - 1]).size <= p); }
                assert(hdr(a5.file, p) == hdr(a0.file, p));
            }
            assert(k > 0 ==> hdr(a5.file, e0[k - 1]) == (ObjectHeader { next: ptr(e0, k + 1), ..hdr(a0.file, e0[k - 1]) }));
            assert(hdr(a5.file, s) == (ObjectHeader { size: ps as u64, next: bhead(a0, h), is_empty: false, name_len: name@.len() as usize, data_len: data@.len() as usize }));
            assert(name_at(a5.file, s) == name@ && meta_at(a5.file, s, ms::<Meta>()) == meta.enc() && data_at(a5.file, s, ms::<Meta>()) == data@);
            assert(forall|b: int| 0 <= b < nb(a0) && b != h ==> #[trigger] slot(a5.file, b) == slot(a0.file, b));
            assert(slot(a5.file, h) == s);
            assert(es > ps ==> hdr(a5.file, (s + ps) as u64).size == es - ps && hdr(a5.file, (s + ps) as u64).is_empty);
            assert(es > ps ==> hdr(a5.file, (s + ps) as u64).next == ptr(e1, 0));
            assert(es > ps ==> slot(a5.file, nb(a0)) == s + ps);
            assert(es <= ps ==> slot(a5.file, nb(a0)) == raw(ptr(e1, 0)));
            assert(replace_summary(a0, *self, name@, meta.enc(), data@, s, k));
            lemma_replace(a0, *self, name@, meta.enc(), data@, s, k);
        }
//@ fn Archive::create_empty
//@ spec
    requires
        // `start` is a block of `size` bytes that has been taken off its chain
        lay(*old(self), ec(*old(self)), bcs(*old(self)), seq![start]),
        is_hole(*old(self), start), hdr(old(self).file, start).size == size,
    ensures
        final(self).meta == old(self).meta,
        res is Ok ==> create_empty_post(*old(self), *final(self), start),
//@ entry
        let ghost a0 = *self;
        let ghost e0 = ec(a0);
        let ghost bs0 = bcs(a0);
        let ghost hl = seq![start];
        let ghost n = blk_end(a0, start);
        proof {
            broadcast use hash_in_range;
            lemma_lay_facts(a0, e0, bs0, hl);
            lemma_frame_all();
            assert(hl[0] == start);
            assert(member(a0, e0, bs0, hl, start));
            assert(block_ok(a0, start));
            assert(blk_end(a0, start) == a0.file.size || member(a0, e0, bs0, hl, blk_end(a0, start) as u64));
            if n != a0.file.size {
                assert(block_ok(a0, n as u64));
                if hdr(a0.file, n as u64).is_empty {
                    let kn = e0.index_of(n as u64);
                    assert(e0.contains(n as u64));
                    assert(0 <= kn < e0.len() && e0[kn] == n);
                    assert(spaced_from(e0, kn - 1) || kn == 0);
                }
            }
        }
//@ tail
        proof {
            let a2 = *self;
            let merged = hdr(a0.file, n as u64).is_empty;
            let kn = e0.index_of(n as u64);
            let e1 = if merged { without(e0, kn) } else { e0 };
            assert(forall|b: int| 0 <= b < nb(a0) ==> #[trigger] slot(a2.file, b) == slot(a0.file, b));
            if n == a0.file.size {
                assert forall|p: u64| #[trigger] member(a0, e0, bs0, hl, p) && p != start implies same_obj(a0, a2, p) by {
                    assert(block_ok(a0, p));
                    assert(p + hdr(a0.file, p).size <= start || start + hdr(a0.file, start).size <= p);
                }
            } else {
                if merged && kn > 0 {
                    assert(member(a0, e0, bs0, hl, e0[kn - 1]));
                    assert(block_ok(a0, e0[kn - 1]));
                    assert(e0[kn - 1] != start);
                    assert(e0[kn - 1] + hdr(a0.file, e0[kn - 1]).size <= start || start + hdr(a0.file, start).size <= e0[kn - 1]);
                    assert(hdr(a0.file, e0[kn]).next == ptr(e0, kn + 1));
                }
                assert forall|p: u64| #[trigger] member(a0, e0, bs0, hl, p) && p != start
                        && !(merged && (p == n || (kn > 0 && p == e0[kn - 1]))) implies same_obj(a0, a2, p) by {
                    assert(block_ok(a0, p));
                    assert(p + hdr(a0.file, p).size <= start || start + hdr(a0.file, start).size <= p);
                    if merged && kn > 0 {
                        assert(p + hdr(a0.file, p).size <= e0[kn - 1] || e0[kn - 1] + hdr(a0.file, e0[kn - 1]).size <= p);
                    }
                    assert(hdr(a2.file, p) == hdr(a0.file, p));
                }
                assert(merged && kn > 0 ==> hdr(a2.file, e0[kn - 1]) == (ObjectHeader { next: ptr(e0, kn + 1), ..hdr(a0.file, e0[kn - 1]) }));
                assert(hdr(a2.file, start).next == ptr(e1, 0));
                assert(hdr(a2.file, start).size == hdr(a0.file, start).size + if merged { hdr(a0.file, n as u64).size } else { 0 });
                assert(slot(a2.file, nb(a0)) == start);
            }
            assert(ce_summary(a0, *self, start));
            lemma_create_empty(a0, *self, start);
        }
//@ fn Archive::find_empty
//@ spec
    requires
        wf(*self), name@.len() < lim(), data@.len() < lim(), ms::<Meta>() < lim(),
    ensures
        // C26: a block offered for reuse is on the empty chain, comes with its own header, and the object fits
        res matches Ok(Some(r)) ==> cand_ok(*self, psize::<Meta>(name@, data@), r),
//@ entry
        let ghost c = ec(*self);
        let ghost mut j: int = 0;
        proof { lemma_lay_facts(*self, c, bcs(*self), Seq::empty()); lemma_page_size(hs() + name@.len() + ms::<Meta>() + data@.len()); }
//@ closure sort_by_key 1 optional
|obj: &(ObjectHeader, NonZeroU64)| -> (r: u64)
//@ loop 1
        invariant
            0 <= j <= c.len(),
            start == ptr(c, j),
            size == psize::<Meta>(name@, data@),
            forall|i: int| 0 <= i < candidates@.len() ==> cand_ok(*self, size as int, #[trigger] candidates@[i]),
        decreases c.len() - j,
//@ loopend 1
            proof { j = j + 1; }
//@ fn Archive::find
//@ spec
    requires
        wf(*self), hash == hash_spec(self.meta, name@),
    ensures
        // C26 (4): the lookup returns the entry of the name's bucket chain that carries the name, with
        // its header and its predecessor on the chain; None exactly when no entry carries the name
        res matches Ok(Some(f)) ==> found_ok(*self, name@, f),
        res matches Ok(None) ==> !has_name(*self, name@),
//@ entry
        let ghost c = bc(*self, hash as int);
        let ghost mut j: int = 0;
        proof {
            broadcast use hash_in_range;
            assert(bcs(*self)[hash as int] == c);
            assert(bucket_ok(*self, hash as int, bcs(*self)[hash as int]));
            assert(bucket_of(*self, name@) == c);
        }
//@ loop 1
        invariant
            0 <= j <= c.len(),
            start == ptr(c, j),
            prev == ptr(c, j - 1),
            forall|i: int| 0 <= i < j ==> #[trigger] name_at(self.file, c[i]) != name@,
        decreases c.len() - j,
//@ loopentry 1
            proof {
                assert(pos.v == c[j]);
                assert(c.contains(c[j]));
                let i = c.index_of(c[j]);
                if i < j { assert(c[i] != c[j]); } else if j < i { assert(c[j] != c[i]); }
                assert(prev == ptr(c, c.index_of(c[j]) - 1));
                assert(name_at(self.file, c[j]) == name@ || name_at(self.file, c[j]) != name@);
                assert(hdr(self.file, c[j]).next == ptr(c, j + 1));
                assert(bucket_of(*self, name@) == c);
            }
//@ loopend 1
            proof { j = j + 1; }
//@ fn Archive::unlink_empty
//@ spec
    requires
        // the empty chain is intact and `start` is the k-th block on it, `next` its successor
        is_chain(old(self).file, ehead(*old(self)), ec(*old(self))),
        ec(*old(self)).contains(start),
        next == hdr(old(self).file, start).next,
        chain_inside(*old(self), ec(*old(self))),
        ec(*old(self)).index_of(start) > 0 ==> spaced_from(ec(*old(self)), ec(*old(self)).index_of(start) - 1),
        nb(*old(self)) >= 0,
    ensures
        final(self).meta == old(self).meta,
        res is Ok ==> {
            let k = ec(*old(self)).index_of(start);
            // C26 (1): afterwards the chain is the old one without `start`, all other blocks still on it
            &&& is_chain(final(self).file, ehead(*final(self)), without(ec(*old(self)), k))
            &&& final(self).file.size == old(self).file.size
            // frame: only the predecessor's `next` field, or the head slot, was written
            &&& k > 0 ==> wrote(old(self).file, final(self).file, ec(*old(self))[k - 1] + 8, ec(*old(self))[k - 1] + 16)
            &&& k > 0 ==> hdr(final(self).file, ec(*old(self))[k - 1])
                    == (ObjectHeader { next: next, ..hdr(old(self).file, ec(*old(self))[k - 1]) })
            &&& k == 0 ==> slot(final(self).file, nb(*old(self))) == raw(next)
            &&& k == 0 ==> wrote(old(self).file, final(self).file, slot_pos(nb(*old(self))), slot_pos(nb(*old(self))) + 8)
        },
//@ entry
        let ghost a0 = *self;
        let ghost c = ec(a0);
        let ghost k = c.index_of(start);
        let ghost mut j: int = 0;
        proof {
            assert(0 <= k < c.len() && c[k] == start);
            lemma_unlink(a0, c, k);
        }
//@ loop 1
        invariant
            *self == a0, a0 == *old(self),
            is_chain(a0.file, ehead(a0), c), chain_inside(a0, c), k > 0 ==> spaced_from(c, k - 1), nb(a0) >= 0,
            0 <= k < c.len(), start == Some(NonZeroU64 { v: c[k] }), next == hdr(a0.file, c[k]).next,
            c == ec(a0), k == c.index_of(c[k]),
            0 <= j < k,
            curr == ptr(c, j),
        decreases c.len() - j,
//@ loopentry 1
            proof { lemma_unlink(a0, c, k); }
//@ loopend 1
            proof { j = j + 1; }
//@ global
// ---- sizes ------------------------------------------------------------------------------------
// lengths are sums of in-memory lengths; the same domain restriction as the Kani harnesses
spec fn lim() -> int { 0x100_0000_0000_0000 }
#[verifier::opaque]
spec fn page_size(min: int) -> int { ((min + 255) / 256) * 256 }
proof fn lemma_page_size(min: int)
    requires min >= 0,
    ensures page_size(min) >= min, page_size(min) - min < 256, page_size(min) % 256 == 0,
{
    reveal(page_size);
}
spec fn psize<M: ObjectMeta>(name: Seq<u8>, data: Seq<u8>) -> int { page_size(hs() + name.len() + ms::<M>() + data.len()) }
spec fn fits_spec(e: int, o: int) -> bool { e == o || e >= o + hs() }

// ---- chains ----------------------------------------------------------------------------------
// c[i] as a stored pointer; None behind the last element.
spec fn ptr(c: Seq<u64>, i: int) -> Option<NonZeroU64> {
    if 0 <= i < c.len() { Some(NonZeroU64 { v: c[i] }) } else { None }
}

// c without its k-th element; x in front of c (own definitions: plain index axioms)
spec fn without(c: Seq<u64>, k: int) -> Seq<u64> {
    Seq::new((c.len() - 1) as nat, |i: int| if i < k { c[i] } else { c[i + 1] })
}
spec fn cons(x: u64, c: Seq<u64>) -> Seq<u64> {
    Seq::new(c.len() + 1, |i: int| if i == 0 { x } else { c[i - 1] })
}

// `c` is the list of block positions reached from `head` by following `next`: it ends (acyclic),
// no position occurs twice, no position is 0.
spec fn is_chain(s: Storage, head: Option<NonZeroU64>, c: Seq<u64>) -> bool {
    &&& head == ptr(c, 0)
    &&& forall|i: int| 0 <= i < c.len() ==> c[i] != 0 && (#[trigger] hdr(s, c[i])).next == ptr(c, i + 1)
    &&& forall|i: int, j: int| #![trigger c[i], c[j]] 0 <= i < j < c.len() ==> c[i] != c[j]
}

spec fn nb<M>(a: Archive<M>) -> int { a.meta.bucket_count as int }
spec fn ehead<M>(a: Archive<M>) -> Option<NonZeroU64> { nz(slot(a.file, nb(a))) }
spec fn bhead<M>(a: Archive<M>, b: int) -> Option<NonZeroU64> { nz(slot(a.file, b)) }
// THE empty chain / bucket chain of an archive (unique if there is one: lemma_chain_unique)
spec fn ec<M>(a: Archive<M>) -> Seq<u64> { choose|c: Seq<u64>| is_chain(a.file, ehead(a), c) }
spec fn bc<M>(a: Archive<M>, b: int) -> Seq<u64> { choose|c: Seq<u64>| is_chain(a.file, bhead(a, b), c) }

// every block of the chain lies behind the index with its header inside the file
spec fn chain_inside<M>(a: Archive<M>, c: Seq<u64>) -> bool {
    forall|i: int| 0 <= i < c.len() ==> data_start(nb(a)) <= #[trigger] c[i] && c[i] + hs() <= a.file.size
}
// the header of the j-th block of the chain overlaps no other block's header
spec fn spaced_from(c: Seq<u64>, j: int) -> bool {
    forall|i: int| 0 <= i < c.len() && i != j ==> #[trigger] c[i] + hs() <= c[j] || c[j] + hs() <= c[i]
}

// ---- from bytes to records: a write to [lo, hi) leaves every record outside that range alone ----
spec fn frame(s1: Storage, s2: Storage, lo: int, hi: int) -> bool {
    &&& forall|p: u64| p + hs() <= lo || hi <= p ==> #[trigger] hdr(s2, p) == hdr(s1, p)
    &&& forall|p: u64| (p + hs() + hdr(s1, p).name_len <= lo || hi <= p) ==> #[trigger] name_at(s2, p) == name_at(s1, p)
    &&& forall|p: u64, ms: int| ms >= 0 && (p + hs() + hdr(s1, p).name_len + ms + hdr(s1, p).data_len <= lo || hi <= p)
            ==> #[trigger] data_at(s2, p, ms) == data_at(s1, p, ms)
    &&& forall|p: u64, ms: int| ms >= 0 && (p + hs() + hdr(s1, p).name_len + ms + hdr(s1, p).data_len <= lo || hi <= p)
            ==> #[trigger] meta_at(s2, p, ms) == meta_at(s1, p, ms)
    &&& forall|b: int| b >= 0 && (slot_pos(b) + 8 <= lo || hi <= slot_pos(b)) ==> #[trigger] slot(s2, b) == slot(s1, b)
}
proof fn lemma_frame(s1: Storage, s2: Storage, lo: int, hi: int)
    requires wrote(s1, s2, lo, hi),
    ensures frame(s1, s2, lo, hi),
{
    reveal(hdr); reveal(name_at); reveal(meta_at); reveal(data_at); reveal(slot);
    assert forall|p: u64| p + hs() <= lo || hi <= p implies #[trigger] hdr(s2, p) == hdr(s1, p) by {
        assert(bytes(s2, p as int, hs()) =~= bytes(s1, p as int, hs()));
    }
    assert forall|p: u64| (p + hs() + hdr(s1, p).name_len <= lo || hi <= p) implies #[trigger] name_at(s2, p) == name_at(s1, p) by {
        assert(bytes(s2, p as int, hs()) =~= bytes(s1, p as int, hs()));
        assert(bytes(s2, p + hs(), hdr(s1, p).name_len as int) =~= bytes(s1, p + hs(), hdr(s1, p).name_len as int));
    }
    assert forall|p: u64, ms: int| ms >= 0 && (p + hs() + hdr(s1, p).name_len + ms + hdr(s1, p).data_len <= lo || hi <= p)
        implies #[trigger] data_at(s2, p, ms) == data_at(s1, p, ms) by {
        assert(bytes(s2, p as int, hs()) =~= bytes(s1, p as int, hs()));
        assert(bytes(s2, p + hs() + hdr(s1, p).name_len + ms, hdr(s1, p).data_len as int)
            =~= bytes(s1, p + hs() + hdr(s1, p).name_len + ms, hdr(s1, p).data_len as int));
    }
    assert forall|p: u64, ms: int| ms >= 0 && (p + hs() + hdr(s1, p).name_len + ms + hdr(s1, p).data_len <= lo || hi <= p)
        implies #[trigger] meta_at(s2, p, ms) == meta_at(s1, p, ms) by {
        assert(bytes(s2, p as int, hs()) =~= bytes(s1, p as int, hs()));
        assert(bytes(s2, p + hs() + hdr(s1, p).name_len, ms) =~= bytes(s1, p + hs() + hdr(s1, p).name_len, ms));
    }
    assert forall|b: int| b >= 0 && (slot_pos(b) + 8 <= lo || hi <= slot_pos(b)) implies #[trigger] slot(s2, b) == slot(s1, b) by {
        assert(bytes(s2, slot_pos(b), 8) =~= bytes(s1, slot_pos(b), 8));
    }
}
proof fn lemma_frame_all()
    ensures forall|s1: Storage, s2: Storage, lo: int, hi: int| #[trigger] wrote(s1, s2, lo, hi) ==> frame(s1, s2, lo, hi),
{
    assert forall|s1: Storage, s2: Storage, lo: int, hi: int| #[trigger] wrote(s1, s2, lo, hi) implies frame(s1, s2, lo, hi) by {
        lemma_frame(s1, s2, lo, hi);
    }
}

// unlinking the k-th block: re-pointing its predecessor (or the head slot) at its successor
proof fn lemma_unlink<M>(a0: Archive<M>, c: Seq<u64>, k: int)
    requires is_chain(a0.file, ehead(a0), c), chain_inside(a0, c), 0 <= k < c.len(), nb(a0) >= 0, k > 0 ==> spaced_from(c, k - 1),
    ensures
        forall|a2: Archive<M>| #![trigger ehead(a2)]
            a2.meta == a0.meta && k > 0 && wrote(a0.file, a2.file, c[k - 1] + 8, c[k - 1] + 16)
            && hdr(a2.file, c[k - 1]) == (ObjectHeader { next: hdr(a0.file, c[k]).next, ..hdr(a0.file, c[k - 1]) })
            ==> is_chain(a2.file, ehead(a2), without(c, k)),
        forall|a2: Archive<M>| #![trigger ehead(a2)]
            a2.meta == a0.meta && k == 0 && wrote(a0.file, a2.file, slot_pos(nb(a0)), slot_pos(nb(a0)) + 8)
            && slot(a2.file, nb(a0)) == raw(hdr(a0.file, c[0]).next)
            ==> is_chain(a2.file, ehead(a2), without(c, k)),
{
    let c2 = without(c, k);
    assert forall|a2: Archive<M>| #![trigger ehead(a2)]
            a2.meta == a0.meta && k > 0 && wrote(a0.file, a2.file, c[k - 1] + 8, c[k - 1] + 16)
            && hdr(a2.file, c[k - 1]) == (ObjectHeader { next: hdr(a0.file, c[k]).next, ..hdr(a0.file, c[k - 1]) })
            implies is_chain(a2.file, ehead(a2), c2) by {
        lemma_frame(a0.file, a2.file, c[k - 1] + 8, c[k - 1] + 16);
        assert(slot(a2.file, nb(a0)) == slot(a0.file, nb(a0)));
        assert forall|i: int| 0 <= i < c2.len() implies c2[i] != 0 && (#[trigger] hdr(a2.file, c2[i])).next == ptr(c2, i + 1) by {
            let i0 = if i < k { i } else { i + 1 };
            assert(c2[i] == c[i0]);
            if i0 != k - 1 { assert(hdr(a2.file, c[i0]) == hdr(a0.file, c[i0])); }
        }
    }
    assert forall|a2: Archive<M>| #![trigger ehead(a2)]
            a2.meta == a0.meta && k == 0 && wrote(a0.file, a2.file, slot_pos(nb(a0)), slot_pos(nb(a0)) + 8)
            && slot(a2.file, nb(a0)) == raw(hdr(a0.file, c[0]).next)
            implies is_chain(a2.file, ehead(a2), c2) by {
        lemma_frame(a0.file, a2.file, slot_pos(nb(a0)), slot_pos(nb(a0)) + 8);
        assert forall|i: int| 0 <= i < c2.len() implies c2[i] != 0 && (#[trigger] hdr(a2.file, c2[i])).next == ptr(c2, i + 1) by {
            assert(c2[i] == c[i + 1]);
            assert(hdr(a2.file, c[i + 1]) == hdr(a0.file, c[i + 1]));
        }
    }
}

// ---- the archive invariant --------------------------------------------------------------------
// bucket b: a chain of non-empty objects whose names hash to b and are pairwise different
spec fn bucket_ok<M>(a: Archive<M>, b: int, c: Seq<u64>) -> bool {
    &&& is_chain(a.file, bhead(a, b), c)
    &&& forall|i: int| 0 <= i < c.len() ==> !(#[trigger] hdr(a.file, c[i])).is_empty
    &&& forall|i: int| 0 <= i < c.len() ==> hash_spec(a.meta, #[trigger] name_at(a.file, c[i])) == b
    &&& forall|i: int, j: int| 0 <= i < j < c.len() ==> #[trigger] name_at(a.file, c[i]) != #[trigger] name_at(a.file, c[j])
}
spec fn chains_ok<M>(a: Archive<M>, e: Seq<u64>, bs: Seq<Seq<u64>>) -> bool {
    &&& 0 < nb(a) < lim()
    &&& bs.len() == nb(a)
    &&& is_chain(a.file, ehead(a), e)
    &&& forall|i: int| 0 <= i < e.len() ==> (#[trigger] hdr(a.file, e[i])).is_empty
    &&& forall|b: int| 0 <= b < nb(a) ==> bucket_ok(a, b, #[trigger] bs[b])
}
// p is the start of a block: it is on the chain its header says it belongs to (or is one of the
// blocks an operation has taken off a chain and not yet put back: `holes`)
spec fn member<M>(a: Archive<M>, e: Seq<u64>, bs: Seq<Seq<u64>>, holes: Seq<u64>, p: u64) -> bool {
    holes.contains(p) || (if hdr(a.file, p).is_empty { e.contains(p) }
                          else { bs[hash_spec(a.meta, name_at(a.file, p)) as int].contains(p) })
}
spec fn block_ok<M: ObjectMeta>(a: Archive<M>, p: u64) -> bool {
    let h = hdr(a.file, p);
    &&& data_start(nb(a)) <= p && p + h.size <= a.file.size && h.size >= hs()
    &&& !h.is_empty ==> rec_len(h, ms::<M>()) <= h.size
}
// the first position behind the block at p
spec fn blk_end<M>(a: Archive<M>, p: u64) -> int { p + hdr(a.file, p).size }
// C26 layout: the blocks tile the file behind the index without overlap and without gaps
spec fn tiles<M: ObjectMeta>(a: Archive<M>, e: Seq<u64>, bs: Seq<Seq<u64>>, holes: Seq<u64>) -> bool {
    &&& data_start(nb(a)) <= a.file.size
    &&& forall|p: u64| #[trigger] member(a, e, bs, holes, p) ==> block_ok(a, p)
    &&& forall|p: u64, q: u64| #[trigger] member(a, e, bs, holes, p) && #[trigger] member(a, e, bs, holes, q) && p != q ==>
            p + hdr(a.file, p).size <= q || q + hdr(a.file, q).size <= p
    &&& forall|p: u64| member(a, e, bs, holes, p) ==>
            #[trigger] blk_end(a, p) == a.file.size || member(a, e, bs, holes, blk_end(a, p) as u64)
    &&& a.file.size == data_start(nb(a)) || member(a, e, bs, holes, data_start(nb(a)) as u64)
}
spec fn lay<M: ObjectMeta>(a: Archive<M>, e: Seq<u64>, bs: Seq<Seq<u64>>, holes: Seq<u64>) -> bool {
    chains_ok(a, e, bs) && tiles(a, e, bs, holes)
}
spec fn bcs<M>(a: Archive<M>) -> Seq<Seq<u64>> { Seq::new(nb(a) as nat, |b: int| bc(a, b)) }
// C26: the archive is consistent
spec fn wf<M: ObjectMeta>(a: Archive<M>) -> bool { lay(a, ec(a), bcs(a), Seq::empty()) }

// ---- the map view -----------------------------------------------------------------------------
spec fn bucket_of<M>(a: Archive<M>, name: Seq<u8>) -> Seq<u64> { bc(a, hash_spec(a.meta, name) as int) }
spec fn has_name<M>(a: Archive<M>, name: Seq<u8>) -> bool {
    exists|i: int| 0 <= i < bucket_of(a, name).len() && #[trigger] name_at(a.file, bucket_of(a, name)[i]) == name
}
// the records of the object at p are the same in both archives
spec fn same_obj<M: ObjectMeta>(a1: Archive<M>, a2: Archive<M>, p: u64) -> bool {
    &&& hdr(a2.file, p) == hdr(a1.file, p)
    &&& !hdr(a1.file, p).is_empty ==> {
            &&& name_at(a2.file, p) == name_at(a1.file, p)
            &&& meta_at(a2.file, p, ms::<M>()) == meta_at(a1.file, p, ms::<M>())
            &&& data_at(a2.file, p, ms::<M>()) == data_at(a1.file, p, ms::<M>())
        }
}
// C26 (3)+(4): publishing adds exactly one entry, at the head of the name's bucket chain, holding
// exactly (name, meta, data); every other chain and every other object is unchanged
spec fn publish_post<M: ObjectMeta>(a1: Archive<M>, a2: Archive<M>, name: Seq<u8>, meta: Seq<u8>, data: Seq<u8>, pos: u64) -> bool {
    let h = hash_spec(a1.meta, name) as int;
    &&& wf(a2)
    &&& a2.meta == a1.meta
    &&& bc(a2, h) == cons(pos, bc(a1, h))
    &&& forall|b: int| 0 <= b < nb(a1) && b != h ==> #[trigger] bc(a2, b) == bc(a1, b)
    &&& name_at(a2.file, pos) == name && meta_at(a2.file, pos, ms::<M>()) == meta && data_at(a2.file, pos, ms::<M>()) == data
    &&& forall|b: int, i: int| 0 <= b < nb(a1) && 0 <= i < bc(a1, b).len() ==> same_obj(a1, a2, #[trigger] bc(a1, b)[i])
}

// ---- consequences of the invariant ---------------------------------------------------------------
proof fn lemma_lay_facts<M: ObjectMeta>(a: Archive<M>, e: Seq<u64>, bs: Seq<Seq<u64>>, holes: Seq<u64>)
    requires lay(a, e, bs, holes),
    ensures
        forall|i: int| 0 <= i < e.len() ==> #[trigger] member(a, e, bs, holes, e[i]),
        forall|b: int, i: int| 0 <= b < nb(a) && 0 <= i < bs[b].len() ==> #[trigger] member(a, e, bs, holes, bs[b][i]),
        chain_inside(a, e),
        forall|b: int| 0 <= b < nb(a) ==> chain_inside(a, #[trigger] bs[b]),
        forall|j: int| 0 <= j < e.len() ==> #[trigger] spaced_from(e, j),
{
    assert forall|i: int| 0 <= i < e.len() implies #[trigger] member(a, e, bs, holes, e[i]) by {
        assert(hdr(a.file, e[i]).is_empty);
        assert(e.contains(e[i]));
    }
    assert forall|b: int, i: int| 0 <= b < nb(a) && 0 <= i < bs[b].len() implies #[trigger] member(a, e, bs, holes, bs[b][i]) by {
        assert(bucket_ok(a, b, bs[b]));
        assert(!hdr(a.file, bs[b][i]).is_empty);
        assert(hash_spec(a.meta, name_at(a.file, bs[b][i])) == b);
        assert(bs[b].contains(bs[b][i]));
    }
    assert forall|i: int| 0 <= i < e.len() implies data_start(nb(a)) <= #[trigger] e[i] && e[i] + hs() <= a.file.size by {
        assert(member(a, e, bs, holes, e[i]));
    }
    assert forall|b: int| 0 <= b < nb(a) implies chain_inside(a, #[trigger] bs[b]) by {
        assert forall|i: int| 0 <= i < bs[b].len() implies data_start(nb(a)) <= #[trigger] bs[b][i] && bs[b][i] + hs() <= a.file.size by {
            assert(member(a, e, bs, holes, bs[b][i]));
        }
    }
    assert forall|j: int| 0 <= j < e.len() implies #[trigger] spaced_from(e, j) by {
        assert forall|i: int| 0 <= i < e.len() && i != j implies #[trigger] e[i] + hs() <= e[j] || e[j] + hs() <= e[i] by {
            assert(member(a, e, bs, holes, e[i]));
            assert(member(a, e, bs, holes, e[j]));
            if i < j { assert(e[i] != e[j]); } else { assert(e[j] != e[i]); }
        }
    }
}

// what publish_replace has done to the storage, as a relation between the first and the last state
spec fn replace_summary<M: ObjectMeta>(a0: Archive<M>, a5: Archive<M>, name: Seq<u8>, meta: Seq<u8>, data: Seq<u8>, s: u64, k: int) -> bool {
    let e0 = ec(a0);
    let bs0 = bcs(a0);
    let h = hash_spec(a0.meta, name) as int;
    let ps = psize::<M>(name, data);
    let es = hdr(a0.file, s).size;
    let e1 = without(e0, k);
    &&& a5.meta == a0.meta && a5.file.size == a0.file.size
    // all other blocks are untouched
    &&& forall|p: u64| #[trigger] member(a0, e0, bs0, Seq::empty(), p) && p != s && (k > 0 ==> p != e0[k - 1]) ==> same_obj(a0, a5, p)
    // the predecessor on the empty chain skips the reused block
    &&& k > 0 ==> hdr(a5.file, e0[k - 1]) == (ObjectHeader { next: ptr(e0, k + 1), ..hdr(a0.file, e0[k - 1]) })
    // the new object
    &&& hdr(a5.file, s) == (ObjectHeader { size: ps as u64, next: bhead(a0, h), is_empty: false, name_len: name.len() as usize, data_len: data.len() as usize })
    &&& name_at(a5.file, s) == name && meta_at(a5.file, s, ms::<M>()) == meta && data_at(a5.file, s, ms::<M>()) == data
    // the index
    &&& forall|b: int| 0 <= b < nb(a0) && b != h ==> #[trigger] slot(a5.file, b) == slot(a0.file, b)
    &&& slot(a5.file, h) == s
    // the remainder
    &&& es > ps ==> {
            &&& hdr(a5.file, (s + ps) as u64).size == es - ps && hdr(a5.file, (s + ps) as u64).is_empty
            &&& hdr(a5.file, (s + ps) as u64).next == ptr(e1, 0)
            &&& slot(a5.file, nb(a0)) == s + ps
        }
    &&& es <= ps ==> slot(a5.file, nb(a0)) == raw(ptr(e1, 0))
}

// ---- a chain is determined by the storage ---------------------------------------------------------
proof fn lemma_chain_prefix(s: Storage, head: Option<NonZeroU64>, c1: Seq<u64>, c2: Seq<u64>, i: int)
    requires is_chain(s, head, c1), is_chain(s, head, c2), 0 <= i <= c1.len(),
    ensures i <= c2.len(), forall|j: int| 0 <= j < i ==> c1[j] == c2[j],
    decreases i,
{
    if i > 0 {
        lemma_chain_prefix(s, head, c1, c2, i - 1);
        if i - 1 == 0 {
            assert(ptr(c1, 0) == ptr(c2, 0));
        } else {
            assert(c1[i - 2] == c2[i - 2]);
            assert(hdr(s, c1[i - 2]).next == ptr(c1, i - 1));
            assert(hdr(s, c2[i - 2]).next == ptr(c2, i - 1));
        }
        assert(ptr(c1, i - 1) == ptr(c2, i - 1));
    }
}
proof fn lemma_chain_unique(s: Storage, head: Option<NonZeroU64>, c1: Seq<u64>, c2: Seq<u64>)
    requires is_chain(s, head, c1), is_chain(s, head, c2),
    ensures c1 == c2,
{
    lemma_chain_prefix(s, head, c1, c2, c1.len() as int);
    lemma_chain_prefix(s, head, c2, c1, c2.len() as int);
    assert(c1 =~= c2);
}
// a layout that satisfies the invariant is THE layout of the archive
proof fn lemma_lay_is_wf<M: ObjectMeta>(a: Archive<M>, e: Seq<u64>, bs: Seq<Seq<u64>>)
    requires lay(a, e, bs, Seq::empty()),
    ensures wf(a), ec(a) == e, bcs(a) == bs,
{
    lemma_chain_unique(a.file, ehead(a), e, ec(a));
    assert forall|b: int| 0 <= b < nb(a) implies bc(a, b) == #[trigger] bs[b] by {
        assert(bucket_ok(a, b, bs[b]));
        lemma_chain_unique(a.file, bhead(a, b), bs[b], bc(a, b));
    }
    assert(bcs(a) =~= bs);
}

// the layout after publish_replace
spec fn replace_e<M: ObjectMeta>(a0: Archive<M>, name: Seq<u8>, data: Seq<u8>, s: u64, k: int) -> Seq<u64> {
    if hdr(a0.file, s).size > psize::<M>(name, data) { cons((s + psize::<M>(name, data)) as u64, without(ec(a0), k)) } else { without(ec(a0), k) }
}
spec fn publish_bs<M>(a0: Archive<M>, name: Seq<u8>, s: u64) -> Seq<Seq<u64>> {
    let h = hash_spec(a0.meta, name) as int;
    bcs(a0).update(h, cons(s, bcs(a0)[h]))
}
spec fn replace_pre<M: ObjectMeta>(a0: Archive<M>, a5: Archive<M>, name: Seq<u8>, meta: Seq<u8>, data: Seq<u8>, s: u64, k: int) -> bool {
    &&& wf(a0) && name.len() < lim() && data.len() < lim() && ms::<M>() < lim()
    &&& !has_name(a0, name)
    &&& 0 <= k < ec(a0).len() && ec(a0)[k] == s
    &&& fits_spec(hdr(a0.file, s).size as int, psize::<M>(name, data))
    &&& replace_summary(a0, a5, name, meta, data, s, k)
}
// every block of the old layout other than the reused one is a block of the new layout
proof fn lemma_replace_transfer<M: ObjectMeta>(a0: Archive<M>, a5: Archive<M>, name: Seq<u8>, meta: Seq<u8>, data: Seq<u8>, s: u64, k: int)
    requires replace_pre(a0, a5, name, meta, data, s, k),
    ensures
        forall|q: u64| #[trigger] member(a0, ec(a0), bcs(a0), Seq::empty(), q) && q != s ==> {
            &&& member(a5, replace_e(a0, name, data, s, k), publish_bs(a0, name, s), Seq::empty(), q)
            &&& hdr(a5.file, q).size == hdr(a0.file, q).size && hdr(a5.file, q).is_empty == hdr(a0.file, q).is_empty
            &&& hdr(a5.file, q).name_len == hdr(a0.file, q).name_len && hdr(a5.file, q).data_len == hdr(a0.file, q).data_len
            &&& !hdr(a0.file, q).is_empty ==> name_at(a5.file, q) == name_at(a0.file, q)
        },
{
    lemma_page_size(hs() + name.len() + ms::<M>() + data.len());
    broadcast use hash_in_range;
    let e0 = ec(a0); let bs0 = bcs(a0); let e2 = replace_e(a0, name, data, s, k); let bs2 = publish_bs(a0, name, s);
    let h = hash_spec(a0.meta, name) as int;
    let e1 = without(e0, k);
    assert(hdr(a0.file, e0[k]).is_empty);
    assert forall|q: u64| #[trigger] member(a0, e0, bs0, Seq::empty(), q) && q != s implies {
            &&& member(a5, e2, bs2, Seq::empty(), q)
            &&& hdr(a5.file, q).size == hdr(a0.file, q).size && hdr(a5.file, q).is_empty == hdr(a0.file, q).is_empty
            &&& hdr(a5.file, q).name_len == hdr(a0.file, q).name_len && hdr(a5.file, q).data_len == hdr(a0.file, q).data_len
            &&& !hdr(a0.file, q).is_empty ==> name_at(a5.file, q) == name_at(a0.file, q)
        } by {
        if k > 0 && q == e0[k - 1] {
            assert(hdr(a0.file, e0[k - 1]).is_empty);
        } else {
            assert(same_obj(a0, a5, q));
        }
        if hdr(a0.file, q).is_empty {
            let i = choose|i: int| 0 <= i < e0.len() && e0[i] == q;
            let i1 = if i < k { i } else { i - 1 };
            assert(e1[i1] == q);
            if hdr(a0.file, s).size > psize::<M>(name, data) { assert(e2[i1 + 1] == q); } else { assert(e2[i1] == q); }
            assert(e2.contains(q));
        } else {
            let x = hash_spec(a0.meta, name_at(a0.file, q)) as int;
            let i = choose|i: int| 0 <= i < bs0[x].len() && bs0[x][i] == q;
            if x == h { assert(bs2[x][i + 1] == q); } else { assert(bs2[x][i] == q); }
            assert(bs2[x].contains(q));
        }
    }
}
proof fn lemma_replace_echain<M: ObjectMeta>(a0: Archive<M>, a5: Archive<M>, name: Seq<u8>, meta: Seq<u8>, data: Seq<u8>, s: u64, k: int)
    requires replace_pre(a0, a5, name, meta, data, s, k),
    ensures
        is_chain(a5.file, ehead(a5), replace_e(a0, name, data, s, k)),
        forall|i: int| 0 <= i < replace_e(a0, name, data, s, k).len() ==> (#[trigger] hdr(a5.file, replace_e(a0, name, data, s, k)[i])).is_empty,
{
    lemma_page_size(hs() + name.len() + ms::<M>() + data.len());
    broadcast use hash_in_range;
    let e0 = ec(a0); let bs0 = bcs(a0); let e2 = replace_e(a0, name, data, s, k); let bs2 = publish_bs(a0, name, s);
    let h = hash_spec(a0.meta, name) as int;
    let ps = psize::<M>(name, data); let es = hdr(a0.file, s).size;
    let e1 = without(e0, k);
    let no = Seq::<u64>::empty();
    lemma_lay_facts(a0, e0, bs0, no);
    assert(member(a0, e0, bs0, no, e0[k]));
    assert(block_ok(a0, s));
    assert(hdr(a0.file, e0[k]).is_empty);
    // the empty chain
    let off = if es > ps { 1int } else { 0int };
    assert forall|i: int| 0 <= i < e1.len() implies
        e1[i] != 0 && (#[trigger] hdr(a5.file, e1[i])).next == ptr(e1, i + 1) && hdr(a5.file, e1[i]).is_empty
        && member(a0, e0, bs0, no, e1[i]) && e1[i] != s by {
        let i0 = if i < k { i } else { i + 1 };
        assert(e1[i] == e0[i0]);
        assert(member(a0, e0, bs0, no, e0[i0]));
        if i0 < k { assert(e0[i0] != e0[k]); } else { assert(e0[k] != e0[i0]); }
        assert(hdr(a0.file, e0[i0]).is_empty);
        assert(hdr(a0.file, e0[i0]).next == ptr(e0, i0 + 1));
        if i0 == k - 1 { } else { assert(same_obj(a0, a5, e0[i0])); }
    }
    assert forall|i: int, j: int| #![trigger e1[i], e1[j]] 0 <= i < j < e1.len() implies e1[i] != e1[j] by {
        let i0 = if i < k { i } else { i + 1 };
        let j0 = if j < k { j } else { j + 1 };
        assert(e0[i0] != e0[j0]);
    }
    if es > ps {
        let r = (s + ps) as u64;
        assert(e2[0] == r);
        assert forall|i: int| 0 <= i < e2.len() implies e2[i] != 0 && (#[trigger] hdr(a5.file, e2[i])).next == ptr(e2, i + 1) && hdr(a5.file, e2[i]).is_empty by {
            if i > 0 { assert(e2[i] == e1[i - 1]); assert(hdr(a5.file, e1[i - 1]).is_empty); }
        }
        assert forall|i: int, j: int| #![trigger e2[i], e2[j]] 0 <= i < j < e2.len() implies e2[i] != e2[j] by {
            assert(e2[j] == e1[j - 1]);
            if i > 0 { assert(e2[i] == e1[i - 1]); }
            else {
                assert(member(a0, e0, bs0, no, e1[j - 1]));
                assert(block_ok(a0, e1[j - 1]));
            }
        }
    } else {
        assert(e2 == e1);
    }
    assert(is_chain(a5.file, ehead(a5), e2));
}
proof fn lemma_replace_chains<M: ObjectMeta>(a0: Archive<M>, a5: Archive<M>, name: Seq<u8>, meta: Seq<u8>, data: Seq<u8>, s: u64, k: int)
    requires replace_pre(a0, a5, name, meta, data, s, k),
    ensures chains_ok(a5, replace_e(a0, name, data, s, k), publish_bs(a0, name, s)),
{
    broadcast use hash_in_range;
    let bs2 = publish_bs(a0, name, s);
    lemma_replace_echain(a0, a5, name, meta, data, s, k);
    // the bucket chains
    assert forall|b: int| 0 <= b < nb(a5) implies bucket_ok(a5, b, #[trigger] bs2[b]) by {
        lemma_replace_bucket(a0, a5, name, meta, data, s, k, b);
    }
}
proof fn lemma_replace_bucket<M: ObjectMeta>(a0: Archive<M>, a5: Archive<M>, name: Seq<u8>, meta: Seq<u8>, data: Seq<u8>, s: u64, k: int, b: int)
    requires replace_pre(a0, a5, name, meta, data, s, k), 0 <= b < nb(a0),
    ensures bucket_ok(a5, b, publish_bs(a0, name, s)[b]),
{
    lemma_page_size(hs() + name.len() + ms::<M>() + data.len());
    broadcast use hash_in_range;
    let e0 = ec(a0); let bs0 = bcs(a0); let bs2 = publish_bs(a0, name, s);
    let h = hash_spec(a0.meta, name) as int;
    let no = Seq::<u64>::empty();
    lemma_lay_facts(a0, e0, bs0, no);
    assert(hdr(a0.file, e0[k]).is_empty);
    let c = bs0[b];
    assert(bucket_ok(a0, b, c));
    assert forall|i: int| 0 <= i < c.len() implies
        c[i] != s && (#[trigger] hdr(a5.file, c[i])) == hdr(a0.file, c[i]) by {
        assert(member(a0, e0, bs0, no, bs0[b][i]));
        assert(!hdr(a0.file, c[i]).is_empty);
        if k > 0 { assert(hdr(a0.file, e0[k - 1]).is_empty); }
        assert(same_obj(a0, a5, c[i]));
    }
    assert forall|i: int| 0 <= i < c.len() implies (#[trigger] name_at(a5.file, c[i])) == name_at(a0.file, c[i]) by {
        assert(member(a0, e0, bs0, no, bs0[b][i]));
        assert(!hdr(a0.file, c[i]).is_empty);
        if k > 0 { assert(hdr(a0.file, e0[k - 1]).is_empty); }
        assert(same_obj(a0, a5, c[i]));
    }
    if b == h {
        let c2 = bs2[b];
        assert(c2 == cons(s, c));
        assert(bc(a0, h) == c);
        assert(c2[0] == s);
        assert forall|i: int| 0 <= i < c2.len() implies c2[i] != 0 && (#[trigger] hdr(a5.file, c2[i])).next == ptr(c2, i + 1)
            && !hdr(a5.file, c2[i]).is_empty by {
            if i > 0 {
                assert(c2[i] == c[i - 1]);
                assert(hdr(a5.file, c[i - 1]) == hdr(a0.file, c[i - 1]));
                assert(hdr(a0.file, c[i - 1]).next == ptr(c, i));
            }
        }
        assert forall|i: int| 0 <= i < c2.len() implies hash_spec(a5.meta, #[trigger] name_at(a5.file, c2[i])) == b by {
            if i > 0 {
                assert(c2[i] == c[i - 1]);
                assert(name_at(a5.file, c[i - 1]) == name_at(a0.file, c[i - 1]));
                assert(hash_spec(a0.meta, name_at(a0.file, c[i - 1])) == b);
            }
        }
        assert forall|i: int, j: int| #![trigger c2[i], c2[j]] 0 <= i < j < c2.len() implies c2[i] != c2[j] by {
            assert(c2[j] == c[j - 1]);
            if i > 0 { assert(c2[i] == c[i - 1]); assert(c[i - 1] != c[j - 1]); }
        }
        assert forall|i: int, j: int| 0 <= i < j < c2.len() implies #[trigger] name_at(a5.file, c2[i]) != #[trigger] name_at(a5.file, c2[j]) by {
            assert(c2[j] == c[j - 1]);
            assert(name_at(a5.file, c[j - 1]) == name_at(a0.file, c[j - 1]));
            if i > 0 {
                assert(c2[i] == c[i - 1]);
                assert(name_at(a5.file, c[i - 1]) == name_at(a0.file, c[i - 1]));
                assert(name_at(a0.file, c[i - 1]) != name_at(a0.file, c[j - 1]));
            } else {
                assert(bucket_of(a0, name)[j - 1] == c[j - 1]);
            }
        }
        assert(is_chain(a5.file, bhead(a5, b), c2));
    } else {
        assert(bs2[b] == c);
        assert forall|i: int| 0 <= i < c.len() implies c[i] != 0 && (#[trigger] hdr(a5.file, c[i])).next == ptr(c, i + 1)
            && !hdr(a5.file, c[i]).is_empty by {
            assert(hdr(a0.file, c[i]).next == ptr(c, i + 1));
        }
        assert forall|i: int| 0 <= i < c.len() implies hash_spec(a5.meta, #[trigger] name_at(a5.file, c[i])) == b by {
            assert(hash_spec(a0.meta, name_at(a0.file, c[i])) == b);
        }
        assert forall|i: int, j: int| 0 <= i < j < c.len() implies #[trigger] name_at(a5.file, c[i]) != #[trigger] name_at(a5.file, c[j]) by {
            assert(name_at(a0.file, c[i]) != name_at(a0.file, c[j]));
        }
        assert(is_chain(a5.file, bhead(a5, b), c));
    }
}

// every block of the new layout is the new object, the remainder, or a block of the old layout
proof fn lemma_replace_members<M: ObjectMeta>(a0: Archive<M>, a5: Archive<M>, name: Seq<u8>, meta: Seq<u8>, data: Seq<u8>, s: u64, k: int)
    requires replace_pre(a0, a5, name, meta, data, s, k),
    ensures
        forall|p: u64| #[trigger] member(a5, replace_e(a0, name, data, s, k), publish_bs(a0, name, s), Seq::empty(), p) ==> {
            ||| p == s
            ||| hdr(a0.file, s).size > psize::<M>(name, data) && p == s + psize::<M>(name, data)
            ||| member(a0, ec(a0), bcs(a0), Seq::empty(), p)
        },
        member(a5, replace_e(a0, name, data, s, k), publish_bs(a0, name, s), Seq::empty(), s),
        hdr(a0.file, s).size > psize::<M>(name, data) ==>
            member(a5, replace_e(a0, name, data, s, k), publish_bs(a0, name, s), Seq::empty(), (s + psize::<M>(name, data)) as u64),
{
    lemma_page_size(hs() + name.len() + ms::<M>() + data.len());
    broadcast use hash_in_range;
    let e0 = ec(a0); let bs0 = bcs(a0); let e2 = replace_e(a0, name, data, s, k); let bs2 = publish_bs(a0, name, s);
    let h = hash_spec(a0.meta, name) as int;
    let ps = psize::<M>(name, data); let es = hdr(a0.file, s).size;
    let e1 = without(e0, k);
    let no = Seq::<u64>::empty();
    lemma_lay_facts(a0, e0, bs0, no);
    assert(bs2[h][0] == s);
    assert(bs2[h].contains(s));
    if es > ps { assert(e2[0] == (s + ps) as u64); assert(e2.contains((s + ps) as u64)); }
    assert forall|p: u64| #[trigger] member(a5, e2, bs2, no, p) implies
        (p == s || (es > ps && p == s + ps) || member(a0, e0, bs0, no, p)) by {
        if hdr(a5.file, p).is_empty {
            let i = choose|i: int| 0 <= i < e2.len() && e2[i] == p;
            let i1 = if es > ps { i - 1 } else { i };
            if i1 >= 0 {
                let i0 = if i1 < k { i1 } else { i1 + 1 };
                assert(e1[i1] == e0[i0]);
                assert(member(a0, e0, bs0, no, e0[i0]));
            }
        } else {
            let x = hash_spec(a5.meta, name_at(a5.file, p)) as int;
            let i = choose|i: int| 0 <= i < bs2[x].len() && bs2[x][i] == p;
            let i0 = if x == h { i - 1 } else { i };
            if i0 >= 0 {
                assert(bs2[x][i] == bs0[x][i0]);
                assert(member(a0, e0, bs0, no, bs0[x][i0]));
            }
        }
    }
}
proof fn lemma_replace_tiles<M: ObjectMeta>(a0: Archive<M>, a5: Archive<M>, name: Seq<u8>, meta: Seq<u8>, data: Seq<u8>, s: u64, k: int)
    requires replace_pre(a0, a5, name, meta, data, s, k),
    ensures tiles(a5, replace_e(a0, name, data, s, k), publish_bs(a0, name, s), Seq::empty()),
{
    lemma_page_size(hs() + name.len() + ms::<M>() + data.len());
    let e0 = ec(a0); let bs0 = bcs(a0); let e2 = replace_e(a0, name, data, s, k); let bs2 = publish_bs(a0, name, s);
    let ps = psize::<M>(name, data); let es = hdr(a0.file, s).size;
    let no = Seq::<u64>::empty();
    lemma_lay_facts(a0, e0, bs0, no);
    lemma_replace_transfer(a0, a5, name, meta, data, s, k);
    lemma_replace_members(a0, a5, name, meta, data, s, k);
    assert(member(a0, e0, bs0, no, e0[k]));
    assert(block_ok(a0, s));
    let r = (s + ps) as u64;
    assert(ps >= hs() + name.len() + ms::<M>() + data.len());
    assert forall|p: u64| #[trigger] member(a5, e2, bs2, no, p) implies block_ok(a5, p) by {
        if p != s && !(es > ps && p == r) { assert(member(a0, e0, bs0, no, p)); assert(block_ok(a0, p)); }
    }
    assert forall|p: u64, q: u64| #[trigger] member(a5, e2, bs2, no, p) && #[trigger] member(a5, e2, bs2, no, q) && p != q implies
            p + hdr(a5.file, p).size <= q || q + hdr(a5.file, q).size <= p by {
        let po = p != s && !(es > ps && p == r);
        let qo = q != s && !(es > ps && q == r);
        if po { assert(member(a0, e0, bs0, no, p)); assert(block_ok(a0, p)); }
        if qo { assert(member(a0, e0, bs0, no, q)); assert(block_ok(a0, q)); }
    }
    assert forall|p: u64| member(a5, e2, bs2, no, p) implies
            #[trigger] blk_end(a5, p) == a5.file.size || member(a5, e2, bs2, no, blk_end(a5, p) as u64) by {
        // the old block whose end is the end of p
        let p0 = if p == s || (es > ps && p == r) { s } else { p };
        if !(p == s && es > ps) {
            assert(member(a0, e0, bs0, no, p0));
            assert(blk_end(a5, p) == blk_end(a0, p0));
            if blk_end(a0, p0) != a0.file.size {
                let q = blk_end(a0, p0) as u64;
                assert(member(a0, e0, bs0, no, q));
                assert(block_ok(a0, p0));
            }
        }
    }
    if a5.file.size != data_start(nb(a5)) {
        let d = data_start(nb(a0)) as u64;
        assert(member(a0, e0, bs0, no, d));
    }
}

proof fn lemma_replace<M: ObjectMeta>(a0: Archive<M>, a5: Archive<M>, name: Seq<u8>, meta: Seq<u8>, data: Seq<u8>, s: u64, k: int)
    requires
        wf(a0), name.len() < lim(), data.len() < lim(), ms::<M>() < lim(),
        !has_name(a0, name),
        0 <= k < ec(a0).len(), ec(a0)[k] == s,
        fits_spec(hdr(a0.file, s).size as int, psize::<M>(name, data)),
        replace_summary(a0, a5, name, meta, data, s, k),
    ensures
        publish_post(a0, a5, name, meta, data, s),
        ec(a5) == if hdr(a0.file, s).size > psize::<M>(name, data) { cons((s + psize::<M>(name, data)) as u64, without(ec(a0), k)) } else { without(ec(a0), k) },
{
    lemma_replace_chains(a0, a5, name, meta, data, s, k);
    lemma_replace_tiles(a0, a5, name, meta, data, s, k);
    lemma_lay_is_wf(a5, replace_e(a0, name, data, s, k), publish_bs(a0, name, s));
    lemma_lay_facts(a0, ec(a0), bcs(a0), Seq::empty());
    let h = hash_spec(a0.meta, name) as int;
    broadcast use hash_in_range;
    assert(bcs(a5)[h] == bc(a5, h));
    assert forall|b: int| 0 <= b < nb(a0) && b != h implies #[trigger] bc(a5, b) == bc(a0, b) by {
        assert(bcs(a5)[b] == bc(a5, b));
        assert(bcs(a0)[b] == bc(a0, b));
    }
    assert forall|b: int, i: int| 0 <= b < nb(a0) && 0 <= i < bc(a0, b).len() implies same_obj(a0, a5, #[trigger] bc(a0, b)[i]) by {
        assert(bcs(a0)[b] == bc(a0, b));
        assert(member(a0, ec(a0), bcs(a0), Seq::empty(), bcs(a0)[b][i]));
        assert(bucket_ok(a0, b, bcs(a0)[b]));
        assert(!hdr(a0.file, bc(a0, b)[i]).is_empty);
        assert(hdr(a0.file, ec(a0)[k]).is_empty);
        if k > 0 { assert(hdr(a0.file, ec(a0)[k - 1]).is_empty); }
    }
}

// a candidate for reuse: (header, position) of a block on the empty chain into which `size` fits
spec fn cand_ok<M>(a: Archive<M>, size: int, r: (ObjectHeader, NonZeroU64)) -> bool {
    ec(a).contains(r.1.v) && r.0 == hdr(a.file, r.1.v) && fits_spec(r.0.size as int, size)
}
// what find returns: the i-th entry of the name's bucket chain
spec fn found_ok<M>(a: Archive<M>, name: Seq<u8>, f: FoundObject) -> bool {
    let c = bucket_of(a, name);
    &&& c.contains(f.start) && name_at(a.file, f.start) =~= name
    &&& f.header == hdr(a.file, f.start) && f.prev == ptr(c, c.index_of(f.start) - 1)
}
// ---- create_empty ----------------------------------------------------------------------------------
// p is on no chain
spec fn is_hole<M>(a: Archive<M>, p: u64) -> bool {
    &&& !ec(a).contains(p)
    &&& forall|b: int| 0 <= b < nb(a) ==> !(#[trigger] bcs(a)[b]).contains(p)
}
// the empty chain after create_empty(start, ..)
spec fn ce_e<M>(a0: Archive<M>, start: u64) -> Seq<u64> {
    let n = blk_end(a0, start);
    if n == a0.file.size { ec(a0) }
    else if hdr(a0.file, n as u64).is_empty { cons(start, without(ec(a0), ec(a0).index_of(n as u64))) }
    else { cons(start, ec(a0)) }
}
// C26 (1): the freed block (merged with an empty right neighbour, which leaves the chain) becomes the
// head of the empty chain, or the file is cut off in front of it when it was the last block; all other
// empty blocks stay on the chain in order; all bucket chains and objects are unchanged; the file is tiled
spec fn create_empty_post<M: ObjectMeta>(a0: Archive<M>, a2: Archive<M>, start: u64) -> bool {
    &&& wf(a2) && a2.meta == a0.meta
    &&& ec(a2) == ce_e(a0, start)
    &&& bcs(a2) == bcs(a0)
    &&& forall|b: int, i: int| 0 <= b < nb(a0) && 0 <= i < bcs(a0)[b].len() ==> same_obj(a0, a2, #[trigger] bcs(a0)[b][i])
}
spec fn ce_summary<M: ObjectMeta>(a0: Archive<M>, a2: Archive<M>, start: u64) -> bool {
    let e0 = ec(a0); let bs0 = bcs(a0); let hl = seq![start];
    let n = blk_end(a0, start);
    let merged = hdr(a0.file, n as u64).is_empty;
    let kn = e0.index_of(n as u64);
    let e1 = if merged { without(e0, kn) } else { e0 };
    &&& a2.meta == a0.meta
    &&& forall|b: int| 0 <= b < nb(a0) ==> #[trigger] slot(a2.file, b) == slot(a0.file, b)
    &&& n == a0.file.size ==> {
            &&& a2.file.size == start
            &&& slot(a2.file, nb(a0)) == slot(a0.file, nb(a0))
            &&& forall|p: u64| #[trigger] member(a0, e0, bs0, hl, p) && p != start ==> same_obj(a0, a2, p)
        }
    &&& n != a0.file.size ==> {
            &&& a2.file.size == a0.file.size
            &&& forall|p: u64| #[trigger] member(a0, e0, bs0, hl, p) && p != start
                    && !(merged && (p == n || (kn > 0 && p == e0[kn - 1]))) ==> same_obj(a0, a2, p)
            &&& merged && kn > 0 ==> hdr(a2.file, e0[kn - 1]) == (ObjectHeader { next: ptr(e0, kn + 1), ..hdr(a0.file, e0[kn - 1]) })
            &&& hdr(a2.file, start) == (ObjectHeader {
                    size: (hdr(a0.file, start).size + if merged { hdr(a0.file, n as u64).size } else { 0 }) as u64,
                    next: ptr(e1, 0), is_empty: true, name_len: 0, data_len: 0 })
            &&& slot(a2.file, nb(a0)) == start
        }
}
spec fn ce_pre<M: ObjectMeta>(a0: Archive<M>, a2: Archive<M>, start: u64) -> bool {
    lay(a0, ec(a0), bcs(a0), seq![start]) && is_hole(a0, start) && ce_summary(a0, a2, start)
}
// the right neighbour was merged into the freed block
spec fn ce_merged<M>(a0: Archive<M>, start: u64) -> bool {
    blk_end(a0, start) != a0.file.size && hdr(a0.file, blk_end(a0, start) as u64).is_empty
}
// the right neighbour of the freed block
proof fn lemma_ce_n<M: ObjectMeta>(a0: Archive<M>, start: u64)
    requires lay(a0, ec(a0), bcs(a0), seq![start]), is_hole(a0, start),
    ensures
        member(a0, ec(a0), bcs(a0), seq![start], start), block_ok(a0, start),
        blk_end(a0, start) != a0.file.size ==> {
            let n = blk_end(a0, start) as u64;
            &&& n == blk_end(a0, start) && n != start
            &&& member(a0, ec(a0), bcs(a0), seq![start], n) && block_ok(a0, n)
            &&& hdr(a0.file, n).is_empty ==> ec(a0).contains(n) && 0 <= ec(a0).index_of(n) < ec(a0).len() && ec(a0)[ec(a0).index_of(n)] == n
        },
{
    let hl = seq![start];
    assert(hl[0] == start);
    assert(member(a0, ec(a0), bcs(a0), hl, start));
    assert(block_ok(a0, start));
    assert(blk_end(a0, start) == a0.file.size || member(a0, ec(a0), bcs(a0), hl, blk_end(a0, start) as u64));
    if blk_end(a0, start) != a0.file.size {
        let n = blk_end(a0, start) as u64;
        assert(block_ok(a0, n));
        assert(!hl.contains(n));
    }
}
proof fn lemma_ce_bucket<M: ObjectMeta>(a0: Archive<M>, a2: Archive<M>, start: u64, b: int)
    requires ce_pre(a0, a2, start), 0 <= b < nb(a0),
    ensures
        bucket_ok(a2, b, bcs(a0)[b]),
        forall|i: int| 0 <= i < bcs(a0)[b].len() ==> same_obj(a0, a2, #[trigger] bcs(a0)[b][i]),
{
    broadcast use hash_in_range;
    let e0 = ec(a0); let bs0 = bcs(a0); let hl = seq![start];
    let n = blk_end(a0, start); let kn = e0.index_of(n as u64);
    lemma_lay_facts(a0, e0, bs0, hl);
    let c = bs0[b];
    assert(bucket_ok(a0, b, c));
    assert forall|i: int| 0 <= i < c.len() implies same_obj(a0, a2, #[trigger] c[i]) by {
        assert(member(a0, e0, bs0, hl, bs0[b][i]));
        assert(!hdr(a0.file, c[i]).is_empty);
        assert(c.contains(c[i]));
        if ce_merged(a0, start) && kn > 0 { lemma_ce_n(a0, start); assert(hdr(a0.file, e0[kn - 1]).is_empty); }
    }
    assert forall|i: int| 0 <= i < c.len() implies (#[trigger] hdr(a2.file, c[i])) == hdr(a0.file, c[i]) by {
        assert(same_obj(a0, a2, c[i]));
    }
    assert forall|i: int| 0 <= i < c.len() implies (#[trigger] name_at(a2.file, c[i])) == name_at(a0.file, c[i]) by {
        assert(same_obj(a0, a2, c[i]));
        assert(!hdr(a0.file, c[i]).is_empty);
    }
    assert forall|i: int| 0 <= i < c.len() implies c[i] != 0 && (#[trigger] hdr(a2.file, c[i])).next == ptr(c, i + 1)
        && !hdr(a2.file, c[i]).is_empty by {
        assert(hdr(a0.file, c[i]).next == ptr(c, i + 1));
    }
    assert forall|i: int| 0 <= i < c.len() implies hash_spec(a2.meta, #[trigger] name_at(a2.file, c[i])) == b by {
        assert(hash_spec(a0.meta, name_at(a0.file, c[i])) == b);
    }
    assert forall|i: int, j: int| 0 <= i < j < c.len() implies #[trigger] name_at(a2.file, c[i]) != #[trigger] name_at(a2.file, c[j]) by {
        assert(name_at(a0.file, c[i]) != name_at(a0.file, c[j]));
    }
    assert(is_chain(a2.file, bhead(a2, b), c));
}
proof fn lemma_ce_echain<M: ObjectMeta>(a0: Archive<M>, a2: Archive<M>, start: u64)
    requires ce_pre(a0, a2, start),
    ensures
        is_chain(a2.file, ehead(a2), ce_e(a0, start)),
        forall|i: int| 0 <= i < ce_e(a0, start).len() ==> (#[trigger] hdr(a2.file, ce_e(a0, start)[i])).is_empty,
{
    let e0 = ec(a0); let bs0 = bcs(a0); let hl = seq![start]; let e2 = ce_e(a0, start);
    let n = blk_end(a0, start); let kn = e0.index_of(n as u64);
    let merged = ce_merged(a0, start);
    lemma_lay_facts(a0, e0, bs0, hl);
    lemma_ce_n(a0, start);
    let e1 = if merged { without(e0, kn) } else { e0 };
    assert forall|i: int| 0 <= i < e1.len() implies
        e1[i] != 0 && (#[trigger] hdr(a2.file, e1[i])).next == ptr(e1, i + 1) && hdr(a2.file, e1[i]).is_empty && e1[i] != start by {
        let i0 = if merged && i >= kn { i + 1 } else { i };
        assert(e1[i] == e0[i0]);
        assert(e0.contains(e0[i0]));
        assert(member(a0, e0, bs0, hl, e0[i0]));
        assert(hdr(a0.file, e0[i0]).is_empty);
        assert(hdr(a0.file, e0[i0]).next == ptr(e0, i0 + 1));
        if merged { if i0 < kn { assert(e0[i0] != e0[kn]); } else { assert(e0[kn] != e0[i0]); } }
        if merged && i0 == kn - 1 { } else { assert(same_obj(a0, a2, e0[i0])); }
    }
    assert forall|i: int, j: int| #![trigger e1[i], e1[j]] 0 <= i < j < e1.len() implies e1[i] != e1[j] by {
        let i0 = if merged && i >= kn { i + 1 } else { i };
        let j0 = if merged && j >= kn { j + 1 } else { j };
        assert(e0[i0] != e0[j0]);
    }
    if n == a0.file.size {
        assert(e2 == e1);
    } else {
        assert(e2 == cons(start, e1));
        assert(e2[0] == start);
        assert forall|i: int| 0 <= i < e2.len() implies e2[i] != 0 && (#[trigger] hdr(a2.file, e2[i])).next == ptr(e2, i + 1) && hdr(a2.file, e2[i]).is_empty by {
            if i > 0 { assert(e2[i] == e1[i - 1]); assert(hdr(a2.file, e1[i - 1]).is_empty); }
            else { assert(member(a0, e0, bs0, hl, start)); assert(block_ok(a0, start)); }
        }
        assert forall|i: int, j: int| #![trigger e2[i], e2[j]] 0 <= i < j < e2.len() implies e2[i] != e2[j] by {
            assert(e2[j] == e1[j - 1]);
            if i > 0 { assert(e2[i] == e1[i - 1]); }
        }
    }
}
proof fn lemma_ce_chains<M: ObjectMeta>(a0: Archive<M>, a2: Archive<M>, start: u64)
    requires ce_pre(a0, a2, start),
    ensures chains_ok(a2, ce_e(a0, start), bcs(a0)),
{
    lemma_ce_echain(a0, a2, start);
    assert forall|b: int| 0 <= b < nb(a2) implies bucket_ok(a2, b, #[trigger] bcs(a0)[b]) by {
        lemma_ce_bucket(a0, a2, start, b);
    }
}
proof fn lemma_ce_members<M: ObjectMeta>(a0: Archive<M>, a2: Archive<M>, start: u64)
    requires ce_pre(a0, a2, start),
    ensures
        // old blocks stay blocks, with their sizes
        forall|q: u64| #[trigger] member(a0, ec(a0), bcs(a0), seq![start], q) && q != start && !(ce_merged(a0, start) && q == blk_end(a0, start)) ==> {
            &&& member(a2, ce_e(a0, start), bcs(a0), Seq::empty(), q)
            &&& hdr(a2.file, q).size == hdr(a0.file, q).size && hdr(a2.file, q).is_empty == hdr(a0.file, q).is_empty
            &&& hdr(a2.file, q).name_len == hdr(a0.file, q).name_len && hdr(a2.file, q).data_len == hdr(a0.file, q).data_len
        },
        // new blocks are old blocks or the freed one
        forall|p: u64| #[trigger] member(a2, ce_e(a0, start), bcs(a0), Seq::empty(), p) ==> {
            ||| p == start && blk_end(a0, start) != a0.file.size
            ||| p != start && member(a0, ec(a0), bcs(a0), seq![start], p) && !(ce_merged(a0, start) && p == blk_end(a0, start))
        },
        blk_end(a0, start) != a0.file.size ==> member(a2, ce_e(a0, start), bcs(a0), Seq::empty(), start),
{
    broadcast use hash_in_range;
    let e0 = ec(a0); let bs0 = bcs(a0); let hl = seq![start]; let e2 = ce_e(a0, start); let no = Seq::<u64>::empty();
    let n = blk_end(a0, start); let kn = e0.index_of(n as u64);
    let merged = ce_merged(a0, start);
    lemma_lay_facts(a0, e0, bs0, hl);
    lemma_ce_n(a0, start);
    let e1 = if merged { without(e0, kn) } else { e0 };
    assert(hl[0] == start);
    assert(member(a0, e0, bs0, hl, start));
    assert(block_ok(a0, start));
    if n != a0.file.size { assert(e2[0] == start); assert(e2.contains(start)); }
    assert forall|q: u64| #[trigger] member(a0, e0, bs0, hl, q) && q != start && !(merged && q == n) implies {
            &&& member(a2, e2, bs0, no, q)
            &&& hdr(a2.file, q).size == hdr(a0.file, q).size && hdr(a2.file, q).is_empty == hdr(a0.file, q).is_empty
            &&& hdr(a2.file, q).name_len == hdr(a0.file, q).name_len && hdr(a2.file, q).data_len == hdr(a0.file, q).data_len
        } by {
        assert(!hl.contains(q));
        if merged && kn > 0 && q == e0[kn - 1] {
            assert(hdr(a0.file, e0[kn - 1]).is_empty);
        } else {
            assert(same_obj(a0, a2, q));
        }
        if hdr(a0.file, q).is_empty {
            let i = choose|i: int| 0 <= i < e0.len() && e0[i] == q;
            let i1 = if merged && i > kn { i - 1 } else { i };
            assert(e1[i1] == q);
            if n != a0.file.size { assert(e2[i1 + 1] == q); } else { assert(e2[i1] == q); }
            assert(e2.contains(q));
        }
    }
    assert forall|p: u64| #[trigger] member(a2, e2, bs0, no, p) implies
        ((p == start && n != a0.file.size) || (p != start && member(a0, e0, bs0, hl, p) && !(merged && p == n))) by {
        if hdr(a2.file, p).is_empty {
            let i = choose|i: int| 0 <= i < e2.len() && e2[i] == p;
            let i1 = if n != a0.file.size { i - 1 } else { i };
            if i1 >= 0 {
                let i0 = if merged && i1 >= kn { i1 + 1 } else { i1 };
                assert(e1[i1] == e0[i0]);
                assert(e0.contains(e0[i0]));
                assert(member(a0, e0, bs0, hl, e0[i0]));
                if merged { if i0 < kn { assert(e0[i0] != e0[kn]); } else { assert(e0[kn] != e0[i0]); } }
            }
        } else {
            let x = hash_spec(a2.meta, name_at(a2.file, p)) as int;
            let i = choose|i: int| 0 <= i < bs0[x].len() && bs0[x][i] == p;
            assert(bs0[x].contains(p));
            assert(member(a0, e0, bs0, hl, bs0[x][i]));
            assert(bucket_ok(a0, x, bs0[x]));
            assert(!hdr(a0.file, bs0[x][i]).is_empty);
        }
    }
}
proof fn lemma_ce_tiles<M: ObjectMeta>(a0: Archive<M>, a2: Archive<M>, start: u64)
    requires ce_pre(a0, a2, start),
    ensures tiles(a2, ce_e(a0, start), bcs(a0), Seq::empty()),
{
    let e0 = ec(a0); let bs0 = bcs(a0); let hl = seq![start]; let e2 = ce_e(a0, start); let no = Seq::<u64>::empty();
    let n = blk_end(a0, start);
    let merged = ce_merged(a0, start);
    lemma_lay_facts(a0, e0, bs0, hl);
    lemma_ce_members(a0, a2, start);
    assert(hl[0] == start);
    assert(member(a0, e0, bs0, hl, start));
    assert(block_ok(a0, start));
    assert(blk_end(a0, start) == a0.file.size || member(a0, e0, bs0, hl, blk_end(a0, start) as u64));
    if n != a0.file.size { assert(block_ok(a0, n as u64)); }
    assert forall|p: u64| #[trigger] member(a2, e2, bs0, no, p) implies block_ok(a2, p) by {
        if p != start {
            assert(member(a0, e0, bs0, hl, p)); assert(block_ok(a0, p));
            assert(p + hdr(a0.file, p).size <= start || start + hdr(a0.file, start).size <= p);
        }
    }
    assert forall|p: u64, q: u64| #[trigger] member(a2, e2, bs0, no, p) && #[trigger] member(a2, e2, bs0, no, q) && p != q implies
            p + hdr(a2.file, p).size <= q || q + hdr(a2.file, q).size <= p by {
        if p != start { assert(member(a0, e0, bs0, hl, p)); assert(block_ok(a0, p)); }
        if q != start { assert(member(a0, e0, bs0, hl, q)); assert(block_ok(a0, q)); }
        if merged {
            if p != start { assert(p + hdr(a0.file, p).size <= n || n + hdr(a0.file, n as u64).size <= p); }
            if q != start { assert(q + hdr(a0.file, q).size <= n || n + hdr(a0.file, n as u64).size <= q); }
        }
    }
    assert forall|p: u64| member(a2, e2, bs0, no, p) implies
            #[trigger] blk_end(a2, p) == a2.file.size || member(a2, e2, bs0, no, blk_end(a2, p) as u64) by {
        // the old block whose end is the end of p
        let p0 = if p == start && merged { n as u64 } else { p };
        assert(member(a0, e0, bs0, hl, p0));
        assert(block_ok(a0, p0));
        assert(blk_end(a2, p) == blk_end(a0, p0));
        let q = blk_end(a0, p0);
        if q != a0.file.size {
            assert(member(a0, e0, bs0, hl, q as u64));
            assert(block_ok(a0, q as u64));
        } else {
            if n == a0.file.size { assert(p0 + hdr(a0.file, p0).size <= start || start + hdr(a0.file, start).size <= p0); }
        }
    }
    if a2.file.size != data_start(nb(a2)) {
        let d = data_start(nb(a0)) as u64;
        if a0.file.size != data_start(nb(a0)) {
            assert(member(a0, e0, bs0, hl, d));
            assert(block_ok(a0, d));
            if merged && d == n { assert(d + hdr(a0.file, d).size <= start || start + hdr(a0.file, start).size <= d); }
        }
    }
}
proof fn lemma_create_empty<M: ObjectMeta>(a0: Archive<M>, a2: Archive<M>, start: u64)
    requires
        lay(a0, ec(a0), bcs(a0), seq![start]), is_hole(a0, start),
        ce_summary(a0, a2, start),
    ensures create_empty_post(a0, a2, start),
{
    lemma_ce_chains(a0, a2, start);
    lemma_ce_tiles(a0, a2, start);
    lemma_lay_is_wf(a2, ce_e(a0, start), bcs(a0));
    assert forall|b: int, i: int| 0 <= b < nb(a0) && 0 <= i < bcs(a0)[b].len() implies same_obj(a0, a2, #[trigger] bcs(a0)[b][i]) by {
        lemma_ce_bucket(a0, a2, start, b);
    }
}
