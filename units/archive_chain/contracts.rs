//@ fn Archive::unlink_empty
//@ spec
    ensures true,
//@ loop 1
        invariant true,
//@ global
