// Environment of unit `archive_chain` (C26). Everything here is ASSUMED.
//
// The unit verifies the chain-manipulating functions of utils::archive::Archive<Meta> against a
// BYTE-LEVEL ghost reading of the storage: `byte(s, i)` is the i-th byte of the backing file as
// seen through Storage value `s`. The accessor layer of the file (the functions that go through
// Storage::read / Storage::write with a closure: ObjectHeader::{read, read_with_name, write,
// update_next}, Archive::{get_index, set_index, get_empty_index, set_empty_index, write_object},
// Storage::set_len) is DECLARED here, not verified: each contract states which bytes the function
// decodes or which byte range [lo, hi) it overwrites (`wrote`), nothing else. That header,
// name, data and index-slot records at non-overlapping positions are independent is PROVED from
// that (lemma_frame in the overlay), not assumed.

// ---- std::num::NonZeroU64 (stand-in: a transparent wrapper; every producer states v != 0) ----
#[derive(Clone, Copy)]
pub struct NonZeroU64 { pub v: u64 }
impl NonZeroU64 {
    #[verifier::external_body]
    pub fn new(n: u64) -> (r: Option<NonZeroU64>)
        ensures n == 0 ==> r is None, n != 0 ==> r == Some(NonZeroU64 { v: n }),
    { unimplemented!() }
    #[verifier::external_body]
    pub fn get(self) -> (r: u64)
        ensures r == self.v,
    { unimplemented!() }
}
impl PartialEqSpecImpl for NonZeroU64 {
    open spec fn obeys_eq_spec() -> bool { true }
    open spec fn eq_spec(&self, other: &NonZeroU64) -> bool { self.v == other.v }
}
impl PartialEq for NonZeroU64 {
    #[verifier::external_body]
    fn eq(&self, other: &Self) -> bool { unimplemented!() }
}
impl vstd::std_specs::convert::FromSpecImpl<NonZeroU64> for u64 {
    open spec fn obeys_from_spec() -> bool { true }
    open spec fn from_spec(v: NonZeroU64) -> u64 { v.v }
}
impl From<NonZeroU64> for u64 {
    #[verifier::external_body]
    fn from(value: NonZeroU64) -> u64 { unimplemented!() }
}

// ---- opaque handles ----
#[verifier::external_body] pub struct IoError { _opaque: () }
#[verifier::external_body] pub struct File { _opaque: () }
#[verifier::external_body] pub struct Mmap { _opaque: () }
#[verifier::external_body] #[verifier::reject_recursive_types(T)] pub struct Mutex<T> { _t: T }
#[verifier::external_body] pub struct StorageRead { _opaque: () }
#[verifier::external_body] pub struct StorageWrite { _opaque: () }

// ArchiveMeta::hash_name: SipHash-2-4 of the name under the archive's key, modulo the bucket count
// (`%` panics for a zero bucket count: C27's subject)
uninterp spec fn hash_spec(m: ArchiveMeta, name: Seq<u8>) -> u64;
impl ArchiveMeta {
    #[verifier::external_body]
    fn hash_name(&self, name: &[u8]) -> (r: u64)
        requires self.bucket_count != 0,
        ensures r == hash_spec(*self, name@), r < self.bucket_count,
    { unimplemented!() }
}
// what hash_name's `% bucket_count` guarantees for every name
broadcast axiom fn hash_in_range(m: ArchiveMeta, name: Seq<u8>)
    requires m.bucket_count != 0,
    ensures #[trigger] hash_spec(m, name) < m.bucket_count,
;

// utils::archive::ObjectMeta, reduced to what the chain functions need: the fixed encoded size
// and the encoding itself ("write must write exactly SIZE bytes", doc comment of the trait).
pub trait ObjectMeta: Sized {
    const SIZE: usize;
    spec fn enc(&self) -> Seq<u8>;
}
spec fn ms<M: ObjectMeta>() -> int { M::SIZE as int }
// Archive::min_object_size as a function of a header: header + name + meta + data
spec fn rec_len(h: ObjectHeader, ms: int) -> int { hs() + h.name_len + ms + h.data_len }

// ---- ghost reading of the storage ----------------------------------------------------------
// The i-th byte of the file. Positions at or beyond `size` have no meaning.
uninterp spec fn byte(s: Storage, i: int) -> u8;
spec fn bytes(s: Storage, lo: int, len: int) -> Seq<u8> { Seq::new(len as nat, |k: int| byte(s, lo + k)) }

// Decoders of the fixed-size records (native-endian integers; the 33-byte object header).
uninterp spec fn dec_u64(b: Seq<u8>) -> u64;
uninterp spec fn dec_hdr(b: Seq<u8>) -> ObjectHeader;
// The written size of an object header (ObjectHeader::SIZE) and of a u64.
// ObjectHeader::SIZE (pathmap): Verus cannot evaluate `usize_to_u64(mem::size_of::<u64>() + ..)` in a
// const, so the value for 64-bit targets (8 + 8 + 1 + 8 + 8) is declared here.
pub const HEADER_SIZE: u64 = 33;
spec fn hs() -> int { HEADER_SIZE as int }
// Position of index slot `b` (Archive::index_pos; Archive::empty_index_pos is slot bucket_count),
// and the first byte after the index (MAGIC + ArchiveMeta + Archive::index_size).
uninterp spec fn idx0() -> nat;
spec fn slot_pos(b: int) -> int { idx0() as int + 8 * b }
spec fn data_start(nb: int) -> int { idx0() as int + 8 * (nb + 1) }

// The header record at `pos`, the name that follows it, the meta data (ms = Meta::SIZE bytes)
// and the data after that; the raw value of index slot b.
#[verifier::opaque]
spec fn hdr(s: Storage, pos: u64) -> ObjectHeader { dec_hdr(bytes(s, pos as int, hs())) }
#[verifier::opaque]
spec fn name_at(s: Storage, pos: u64) -> Seq<u8> { bytes(s, pos + hs(), hdr(s, pos).name_len as int) }
#[verifier::opaque]
spec fn meta_at(s: Storage, pos: u64, ms: int) -> Seq<u8> { bytes(s, pos + hs() + hdr(s, pos).name_len, ms) }
#[verifier::opaque]
spec fn data_at(s: Storage, pos: u64, ms: int) -> Seq<u8> {
    bytes(s, pos + hs() + hdr(s, pos).name_len + ms, hdr(s, pos).data_len as int)
}
#[verifier::opaque]
spec fn slot(s: Storage, b: int) -> u64 { dec_u64(bytes(s, slot_pos(b), 8)) }

spec fn nz(v: u64) -> Option<NonZeroU64> { if v == 0 { None } else { Some(NonZeroU64 { v }) } }
spec fn raw(p: Option<NonZeroU64>) -> u64 { match p { Some(n) => n.v, None => 0 } }

// A write step: only bytes in [lo, hi) may differ.
spec fn wrote(s1: Storage, s2: Storage, lo: int, hi: int) -> bool {
    forall|i: int| 0 <= i && !(lo <= i < hi) ==> byte(s2, i) == #[trigger] byte(s1, i)
}
// Storage::write appends (and grows `size`) exactly when the start position is the current size.
spec fn size_after(s1: Storage, s2: Storage, start: int, len: int) -> bool {
    s2.size == if start == s1.size { s1.size + len } else { s1.size as int }
}

// "everything from position lo on" as the upper end of a written range
spec fn eof() -> int { 0x1_0000_0000_0000_0000_0000 }
impl Storage {
    // self.file.lock().set_len(len); self.mmap(): truncates (or zero-extends) the file to len bytes
    #[verifier::external_body]
    fn set_len(&mut self, len: u64) -> (r: Result<(), ArchiveError>)
        ensures r is Ok ==> final(self).size == len && wrote(*old(self), *final(self), len as int, eof()),
    { unimplemented!() }
}

// std::borrow::Cow<'_, [u8]> as returned by StorageRead::read_slice: borrowed from the memory map or owned
#[verifier::external_body] pub struct CowBytes { _opaque: () }
impl CowBytes {
    pub uninterp spec fn view(&self) -> Seq<u8>;
    #[verifier::external_body]
    pub fn as_ref(&self) -> (r: &[u8])
        ensures r@ == self.view(),
    { unimplemented!() }
}

impl ObjectHeader {
    // storage.read(start, |read| { let header = Self::read_from(read)?; let name = read.read_slice(header.name_len)?; Ok((header, name)) })
    #[verifier::external_body]
    fn read_with_name(storage: &Storage, start: u64) -> (r: Result<(ObjectHeader, CowBytes), ArchiveError>)
        ensures r matches Ok(hn) ==> hn.0 == hdr(*storage, start) && hn.1.view() == name_at(*storage, start) && start <= storage.size,
    { unimplemented!() }

    // storage.read(start, Self::read_from)
    #[verifier::external_body]
    fn read(storage: &Storage, start: u64) -> (r: Result<ObjectHeader, ArchiveError>)
        ensures r matches Ok(h) ==> h == hdr(*storage, start) && start <= storage.size,
    { unimplemented!() }

    // storage.write(start, |write| self.write_into(write)): the 33 bytes at start
    #[verifier::external_body]
    fn write(&self, storage: &mut Storage, start: u64) -> (r: Result<(), ArchiveError>)
        ensures r is Ok ==> {
            &&& hdr(*final(storage), start) == *self
            &&& wrote(*old(storage), *final(storage), start as int, start + hs())
            &&& size_after(*old(storage), *final(storage), start as int, hs())
            &&& start <= old(storage).size
        },
    { unimplemented!() }

    // storage.write(start + 8, |write| write.write_nonzero_u64(new_next)): the 8 bytes of `next`
    #[verifier::external_body]
    fn update_next(start: u64, new_next: Option<NonZeroU64>, storage: &mut Storage) -> (r: Result<(), ArchiveError>)
        requires start + 8 <= u64::MAX,
        ensures r is Ok ==> {
            &&& hdr(*final(storage), start) == (ObjectHeader { next: new_next, ..hdr(*old(storage), start) })
            &&& wrote(*old(storage), *final(storage), start + 8, start + 16)
            &&& size_after(*old(storage), *final(storage), start + 8, 8)
        },
    { unimplemented!() }
}

impl<Meta> Archive<Meta> {
    #[verifier::external_body]
    fn get_index(&self, hash: u64) -> (r: Result<Option<NonZeroU64>, ArchiveError>)
        ensures r matches Ok(p) ==> p == nz(slot(self.file, hash as int)),
    { unimplemented!() }

    #[verifier::external_body]
    fn get_empty_index(&self) -> (r: Result<Option<NonZeroU64>, ArchiveError>)
        ensures r matches Ok(p) ==> p == nz(slot(self.file, self.meta.bucket_count as int)),
    { unimplemented!() }

    #[verifier::external_body]
    fn set_index(&mut self, hash: u64, pos: Option<NonZeroU64>) -> (r: Result<(), ArchiveError>)
        ensures
            final(self).meta == old(self).meta,
            r is Ok ==> {
                &&& slot(final(self).file, hash as int) == raw(pos)
                &&& wrote(old(self).file, final(self).file, slot_pos(hash as int), slot_pos(hash as int) + 8)
                &&& size_after(old(self).file, final(self).file, slot_pos(hash as int), 8)
            },
    { unimplemented!() }

    #[verifier::external_body]
    fn set_empty_index(&mut self, pos: Option<NonZeroU64>) -> (r: Result<(), ArchiveError>)
        ensures
            final(self).meta == old(self).meta,
            r is Ok ==> {
                &&& slot(final(self).file, old(self).meta.bucket_count as int) == raw(pos)
                &&& wrote(old(self).file, final(self).file, slot_pos(old(self).meta.bucket_count as int), slot_pos(old(self).meta.bucket_count as int) + 8)
                &&& size_after(old(self).file, final(self).file, slot_pos(old(self).meta.bucket_count as int), 8)
            },
    { unimplemented!() }
}

impl<Meta: ObjectMeta> Archive<Meta> {
    // self.file.write(start, |write| { head.write_into(write)?; write.write(name)?; meta.write(write)?;
    //   write.write(data)?; <padding up to head.size> })
    #[verifier::external_body]
    fn write_object(&mut self, start: u64, head: ObjectHeader, name: &[u8], meta: &Meta, data: &[u8]) -> (r: Result<(), ArchiveError>)
        requires
            // the two `expect`s and `&PAGE[..padding]` in the closure: 0 <= padding <= PAGE_SIZE
            hs() + name@.len() + ms::<Meta>() + data@.len() <= head.size,
            head.size <= hs() + name@.len() + ms::<Meta>() + data@.len() + 256,
        ensures
            final(self).meta == old(self).meta,
            r is Ok ==> {
                &&& hdr(final(self).file, start) == head
                &&& head.name_len == name@.len() && head.data_len == data@.len() ==> {
                        &&& name_at(final(self).file, start) == name@
                        &&& meta_at(final(self).file, start, ms::<Meta>()) == meta.enc()
                        &&& data_at(final(self).file, start, ms::<Meta>()) == data@
                    }
                &&& wrote(old(self).file, final(self).file, start as int, start + head.size)
                &&& size_after(old(self).file, final(self).file, start as int, head.size as int)
                &&& start <= old(self).file.size
            },
    { unimplemented!() }
}

// ---- std functions without a vstd specification ----
// u64::next_multiple_of: the least multiple of rhs that is >= self; panics if rhs == 0 or on overflow
pub assume_specification [u64::next_multiple_of] (x: u64, rhs: u64) -> (r: u64)
    requires rhs != 0, x + rhs <= u64::MAX,
    ensures r as int == ((x + rhs - 1) / (rhs as int)) * rhs,
;
// impl<T> From<T> for Option<T> (used as `nonzero.into()` where an Option<NonZeroU64> is expected)
pub assume_specification<T> [<Option<T> as From<T>>::from] (t: T) -> (r: Option<T>)
    ensures r == Some(t),
;

// <[T]>::sort_by_key: a stable sort is a permutation; nothing is claimed about the order
pub assume_specification<T, K: Ord, F: FnMut(&T) -> K> [<[T]>::sort_by_key] (v: &mut [T], f: F)
    ensures
        final(v)@.len() == old(v)@.len(),
        final(v)@.to_multiset() == old(v)@.to_multiset(),
        forall|i: int| 0 <= i < final(v)@.len() ==> old(v)@.contains(#[trigger] final(v)@[i]),
;
pub assume_specification<'a, T: Copy> [std::option::Option::<&T>::copied] (o: Option<&'a T>) -> (r: Option<T>)
    ensures r == (match o { Some(x) => Some(*x), None => None }),
;
pub assume_specification<T: Ord + core::marker::Destruct> [std::cmp::min] (a: T, b: T) -> (r: T)
    ensures T::obeys_cmp_spec() ==> r == (if b.cmp_spec(&a) == std::cmp::Ordering::Less { b } else { a }),
;
pub assume_specification<T: Ord + core::marker::Destruct> [std::cmp::max] (a: T, b: T) -> (r: T)
    ensures T::obeys_cmp_spec() ==> r == (if a.cmp_spec(&b) == std::cmp::Ordering::Greater { a } else { b }),
;
