// Environment of unit `archive_chain` (C26). Everything here is ASSUMED.

// ---- std::num::NonZeroU64 (stand-in: a transparent wrapper; every producer states v != 0) ----
#[derive(Clone, Copy)]
pub struct NonZeroU64 { pub v: u64 }
impl NonZeroU64 {
    #[verifier::external_body]
    pub fn new(n: u64) -> (r: Option<NonZeroU64>)
        ensures n == 0 ==> r is None, n != 0 ==> r == Some(NonZeroU64 { v: n }),
    { unimplemented!() }
    #[verifier::external_body]
    pub fn get(self) -> (r: u64)
        ensures r == self.v,
    { unimplemented!() }
}
impl PartialEqSpecImpl for NonZeroU64 {
    open spec fn obeys_eq_spec() -> bool { true }
    open spec fn eq_spec(&self, other: &NonZeroU64) -> bool { self.v == other.v }
}
impl PartialEq for NonZeroU64 {
    #[verifier::external_body]
    fn eq(&self, other: &Self) -> bool { unimplemented!() }
}
impl vstd::std_specs::convert::FromSpecImpl<NonZeroU64> for u64 {
    open spec fn obeys_from_spec() -> bool { true }
    open spec fn from_spec(v: NonZeroU64) -> u64 { v.v }
}
impl From<NonZeroU64> for u64 {
    #[verifier::external_body]
    fn from(value: NonZeroU64) -> u64 { unimplemented!() }
}

// ---- opaque handles ----
#[verifier::external_body] pub struct IoError { _opaque: () }
#[verifier::external_body] pub struct File { _opaque: () }
#[verifier::external_body] pub struct Mmap { _opaque: () }
#[verifier::external_body] #[verifier::reject_recursive_types(T)] pub struct Mutex<T> { _t: T }

pub trait ObjectMeta: Sized {
    spec fn size_spec() -> usize;
}

// ---- ghost reading of the storage ----
pub uninterp spec fn hdr(s: Storage, pos: u64) -> ObjectHeader;
pub uninterp spec fn empty_slot(s: Storage) -> u64;

pub open spec fn nz(v: u64) -> Option<NonZeroU64> {
    if v == 0 { None } else { Some(NonZeroU64 { v }) }
}

impl ObjectHeader {
    #[verifier::external_body]
    fn read(storage: &Storage, start: u64) -> (r: Result<ObjectHeader, ArchiveError>)
        ensures r matches Ok(h) ==> h == hdr(*storage, start),
    { unimplemented!() }

    #[verifier::external_body]
    fn update_next(start: u64, new_next: Option<NonZeroU64>, storage: &mut Storage) -> (r: Result<(), ArchiveError>)
        ensures true,
    { unimplemented!() }
}

impl<Meta> Archive<Meta> {
    #[verifier::external_body]
    fn get_empty_index(&self) -> (r: Result<Option<NonZeroU64>, ArchiveError>)
        ensures r matches Ok(p) ==> p == nz(empty_slot(self.file)),
    { unimplemented!() }

    #[verifier::external_body]
    fn set_empty_index(&mut self, pos: Option<NonZeroU64>) -> (r: Result<(), ArchiveError>)
        ensures true,
    { unimplemented!() }
}
