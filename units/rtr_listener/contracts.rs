//@ fn RtrListener::poll_next
//@ spec
    ensures
        // C19: the listener never goes to sleep without arranging to be woken: otherwise no
        // later connection is accepted (Server::run awaits nothing else)
        res is Pending ==> will_be_polled_again(final(ctx)),
        // and the stream never ends (None would stop the RTR server)
        !(res matches Poll::Ready(None)),
        // nor does it ever yield an error item: rpki's Server::run does `sock?` on every item, so one
        // Err item (for a connection whose setup failed, or a failed accept) ends the accept loop for good
        !(res matches Poll::Ready(Some(Err(_)))),
