// Environment of unit `rtr_listener` (C19): std/tokio types and ASSUMED contracts of the
// poll protocol.

#[verifier::reject_recursive_types(Ptr)]
#[verifier::external_type_specification]
#[verifier::external_body]
pub struct ExPin<Ptr>(std::pin::Pin<Ptr>);
#[verifier::external_type_specification]
#[verifier::external_body]
pub struct ExContext<'a>(std::task::Context<'a>);
#[verifier::reject_recursive_types(T)]
#[verifier::external_type_specification]
pub struct ExPoll<T>(std::task::Poll<T>);

#[verifier::external_body] pub struct TcpListener { _opaque: () }
#[verifier::external_body] pub struct TcpStream { _opaque: () }
#[verifier::external_body] pub struct SocketAddr { _opaque: () }
#[verifier::external_body] pub struct Sleep { _opaque: () }
#[verifier::external_body] pub struct TlsAcceptor { _opaque: () }
#[verifier::external_body] pub struct RtrServerMetrics { _opaque: () }
#[verifier::external_body] pub struct RtrStream { _opaque: () }
#[verifier::external_body] pub struct IoError { _opaque: () }
#[derive(Clone, Copy)]
#[verifier::external_body] pub struct Duration { _opaque: () }

// Ghost view of the poll protocol: after this poll, the task that owns `ctx` is going to be
// polled again (its waker is held by some event source, or it has already been woken).
pub open spec fn will_be_polled_again(ctx: &Context) -> bool {
    registered(ctx) || woken(waker_of(ctx))
}
// an event source (socket readiness, timer) holds the waker of this context
pub uninterp spec fn registered(ctx: &Context) -> bool;
// the context's waker, and the monotone fact "this waker has been woken"
pub uninterp spec fn waker_of<'a, 'b>(ctx: &'b Context<'a>) -> &'a std::task::Waker;
pub uninterp spec fn woken(w: &std::task::Waker) -> bool;
#[verifier::external_type_specification]
#[verifier::external_body]
pub struct ExWaker(std::task::Waker);
pub assume_specification<'a, 'b> [ std::task::Context::<'a>::waker ] (ctx: &'b Context<'a>) -> (r: &'a std::task::Waker)
    ensures r == waker_of(ctx);
pub assume_specification [ std::task::Waker::wake_by_ref ] (w: &std::task::Waker)
    ensures woken(w);

// RtrListener is declared inside a `pin_project!` invocation in src/rtr.rs, which the
// extractor cannot cut out: the struct and its projection are RETYPED here (field list only).
pub struct RtrListener {
    pub tcp: TcpListener,
    pub backoff: Option<Pin<Box<Sleep>>>,
    pub tls: Option<TlsAcceptor>,
    pub keepalive: Option<Duration>,
    pub server_metrics: Arc<RtrServerMetrics>,
    pub addr: String,
}
pub struct RtrListenerProjection<'a> {
    pub tcp: &'a mut TcpListener,
    pub backoff: &'a mut Option<Pin<Box<Sleep>>>,
    pub tls: &'a mut Option<TlsAcceptor>,
    pub keepalive: &'a mut Option<Duration>,
    pub server_metrics: &'a mut Arc<RtrServerMetrics>,
    pub addr: &'a mut String,
}
impl RtrListener {
    // pin_project_lite's generated projection
    #[verifier::external_body]
    pub fn project<'a>(self: Pin<&'a mut Self>) -> (r: RtrListenerProjection<'a>) { unimplemented!() }
}

// tokio::net::TcpListener::poll_accept: "If there is no connection to accept, Poll::Pending is
// returned and the current task will be notified by a waker." Ready does not register anything.
impl TcpListener {
    #[verifier::external_body]
    pub fn poll_accept(&self, ctx: &mut Context<'_>) -> (r: Poll<Result<(TcpStream, SocketAddr), IoError>>)
        ensures
            waker_of(final(ctx)) == waker_of(old(ctx)),
            r is Pending ==> registered(final(ctx)),
            !(r is Pending) ==> registered(final(ctx)) == registered(old(ctx)),
    { unimplemented!() }
}
// Future::poll of tokio::time::Sleep: Pending => the timer holds the waker.
impl std::future::Future for Sleep {
    type Output = ();
    #[verifier::external_body]
    fn poll(self: Pin<&mut Self>, ctx: &mut Context<'_>) -> (r: Poll<()>)
        ensures
            waker_of(final(ctx)) == waker_of(old(ctx)),
            r is Pending ==> registered(final(ctx)),
            !(r is Pending) ==> registered(final(ctx)) == registered(old(ctx)),
    { unimplemented!() }
}
pub assume_specification<Ptr: std::ops::DerefMut> [ <Pin<Ptr>>::as_mut ] (p: &mut Pin<Ptr>) -> (r: Pin<&mut <Ptr as std::ops::Deref>::Target>) where Ptr: std::ops::DerefMut;
pub assume_specification<T> [std::boxed::Box::<T>::pin] (_0: T) -> std::pin::Pin<std::boxed::Box<T>>;

// tokio::time::sleep: creates a timer future; nothing is registered until it is polled.
#[verifier::external_body] pub fn tokio_sleep(d: Duration) -> Sleep { unimplemented!() }
impl Duration {
    #[verifier::external_body] pub fn from_millis(ms: u64) -> Duration { unimplemented!() }
}

// RtrStream::new: per-connection setup (keepalive socket options, metrics); may fail.
// It does not touch the task context.
impl RtrStream {
    #[verifier::external_body]
    pub fn new(sock: TcpStream, addr: SocketAddr, tls: Option<&TlsAcceptor>, keepalive: Option<Duration>,
               server_metrics: &RtrServerMetrics) -> (r: Result<RtrStream, IoError>)
    { unimplemented!() }
}
