// Environment of unit `rtr_listener` (C19): std/tokio types and ASSUMED contracts of the
// poll protocol.

#[verifier::reject_recursive_types(Ptr)]
#[verifier::external_type_specification]
#[verifier::external_body]
pub struct ExPin<Ptr>(std::pin::Pin<Ptr>);
#[verifier::external_type_specification]
#[verifier::external_body]
pub struct ExContext<'a>(std::task::Context<'a>);
#[verifier::reject_recursive_types(T)]
#[verifier::external_type_specification]
pub struct ExPoll<T>(std::task::Poll<T>);

#[verifier::external_body] pub struct TcpListener { _opaque: () }
#[verifier::external_body] pub struct TcpStream { _opaque: () }
#[verifier::external_body] pub struct SocketAddr { _opaque: () }
#[verifier::external_body] pub struct Sleep { _opaque: () }
#[verifier::external_body] pub struct TlsAcceptor { _opaque: () }
#[verifier::external_body] pub struct RtrServerMetrics { _opaque: () }
#[verifier::external_body] pub struct RtrStream { _opaque: () }
#[verifier::external_body] pub struct IoError { _opaque: () }
#[derive(Clone, Copy)]
#[verifier::external_body] pub struct Duration { _opaque: () }

// Ghost view of the poll protocol: after this poll, the task that owns `ctx` is going to be
// polled again (its waker is held by some event source, or it has already been woken).
pub open spec fn will_be_polled_again(ctx: &Context) -> bool {
    registered(ctx) || woken(waker_of(ctx))
}
// an event source (socket readiness, timer) holds the waker of this context
pub uninterp spec fn registered(ctx: &Context) -> bool;
// the context's waker, and the monotone fact "this waker has been woken"
pub uninterp spec fn waker_of<'a, 'b>(ctx: &'b Context<'a>) -> &'a std::task::Waker;
pub uninterp spec fn woken(w: &std::task::Waker) -> bool;
#[verifier::external_type_specification]
#[verifier::external_body]
pub struct ExWaker(std::task::Waker);
pub assume_specification<'a, 'b> [ std::task::Context::<'a>::waker ] (ctx: &'b Context<'a>) -> (r: &'a std::task::Waker)
    ensures r == waker_of(ctx);
pub assume_specification [ std::task::Waker::wake_by_ref ] (w: &std::task::Waker)
    ensures woken(w);

// RtrListener is declared inside a `pin_project!` invocation in src/rtr.rs, which the
// extractor cannot cut out: the struct and its projection are RETYPED here (field list only).
pub struct RtrListener {
    pub tcp: TcpListener,
    pub backoff: Option<Pin<Box<Sleep>>>,
    pub tls: Option<TlsAcceptor>,
    pub keepalive: Option<Duration>,
    pub server_metrics: Arc<RtrServerMetrics>,
    pub addr: String,
}
pub struct RtrListenerProjection<'a> {
    pub tcp: &'a mut TcpListener,
    pub backoff: &'a mut Option<Pin<Box<Sleep>>>,
    pub tls: &'a mut Option<TlsAcceptor>,
    pub keepalive: &'a mut Option<Duration>,
    pub server_metrics: &'a mut Arc<RtrServerMetrics>,
    pub addr: &'a mut String,
}
impl RtrListener {
    // pin_project_lite's generated projection
    #[verifier::external_body]
    pub fn project<'a>(self: Pin<&'a mut Self>) -> (r: RtrListenerProjection<'a>) { unimplemented!() }
}

// tokio::net::TcpListener::poll_accept: "If there is no connection to accept, Poll::Pending is
// returned and the current task will be notified by a waker." Ready does not register anything.
impl TcpListener {
    #[verifier::external_body]
    pub fn poll_accept(&self, ctx: &mut Context<'_>) -> (r: Poll<Result<(TcpStream, SocketAddr), IoError>>)
        ensures
            waker_of(final(ctx)) == waker_of(old(ctx)),
            r is Pending ==> registered(final(ctx)),
            !(r is Pending) ==> registered(final(ctx)) == registered(old(ctx)),
    { unimplemented!() }
}
// Future::poll of tokio::time::Sleep: Pending => the timer holds the waker.
impl std::future::Future for Sleep {
    type Output = ();
    #[verifier::external_body]
    fn poll(self: Pin<&mut Self>, ctx: &mut Context<'_>) -> (r: Poll<()>)
        ensures
            waker_of(final(ctx)) == waker_of(old(ctx)),
            r is Pending ==> registered(final(ctx)),
            !(r is Pending) ==> registered(final(ctx)) == registered(old(ctx)),
    { unimplemented!() }
}
pub assume_specification<Ptr: std::ops::DerefMut> [ <Pin<Ptr>>::as_mut ] (p: &mut Pin<Ptr>) -> (r: Pin<&mut <Ptr as std::ops::Deref>::Target>) where Ptr: std::ops::DerefMut;
pub assume_specification<T> [std::boxed::Box::<T>::pin] (_0: T) -> std::pin::Pin<std::boxed::Box<T>>;

// tokio::time::sleep: creates a timer future; nothing is registered until it is polled.
#[verifier::external_body] pub fn tokio_sleep(d: Duration) -> Sleep { unimplemented!() }
impl Duration {
    #[verifier::external_body] pub fn from_millis(ms: u64) -> Duration { unimplemented!() }
}

// RtrStream::new: per-connection setup (keepalive socket options, metrics); may fail.
// It does not touch the task context.
impl RtrStream {
    #[verifier::external_body]
    pub fn new(sock: TcpStream, addr: SocketAddr, tls: Option<&TlsAcceptor>, keepalive: Option<Duration>,
               server_metrics: &RtrServerMetrics) -> (r: Result<RtrStream, IoError>)
    { unimplemented!() }
}

// ---- std functions without a vstd specification (ASSUMED; their std definitions). Declared so
// that a change of the code to one of these combinators is verified instead of rejected.
pub assume_specification<T: Ord + core::marker::Destruct> [std::cmp::max] (a: T, b: T) -> (r: T)
    ensures <T as vstd::std_specs::cmp::OrdSpec>::obeys_cmp_spec() ==> r == (if vstd::std_specs::cmp::OrdSpec::cmp_spec(&a, &b) == std::cmp::Ordering::Greater { a } else { b });
pub assume_specification<T: Ord + core::marker::Destruct> [std::cmp::min] (a: T, b: T) -> (r: T)
    ensures <T as vstd::std_specs::cmp::OrdSpec>::obeys_cmp_spec() ==> r == (if vstd::std_specs::cmp::OrdSpec::cmp_spec(&a, &b) == std::cmp::Ordering::Greater { b } else { a });
pub assume_specification<T> [bool::then_some] (b: bool, t: T) -> (r: Option<T>)
    ensures r == (if b { Some(t) } else { None::<T> });
pub assume_specification<T, U> [Option::<T>::and] (a: Option<T>, b: Option<U>) -> (r: Option<U>)
    ensures r == (if a is Some { b } else { None::<U> });
pub assume_specification<T> [Option::<T>::or] (a: Option<T>, b: Option<T>) -> (r: Option<T>)
    ensures r == (if a is Some { a } else { b });
pub assume_specification<T> [Option::<T>::xor] (a: Option<T>, b: Option<T>) -> (r: Option<T>)
    ensures r == (if a is Some && b is None { a } else if a is None && b is Some { b } else { None::<T> });
pub assume_specification<T, U> [Option::<T>::zip] (a: Option<T>, b: Option<U>) -> (r: Option<(T, U)>)
    ensures r == (if a is Some && b is Some { Some((a->Some_0, b->Some_0)) } else { None::<(T, U)> });
pub assume_specification<T> [Option::<T>::replace] (a: &mut Option<T>, v: T) -> (r: Option<T>)
    ensures r == *old(a), *final(a) == Some(v);
pub assume_specification<T, F: FnOnce(T) -> bool> [Option::<T>::is_some_and] (a: Option<T>, f: F) -> (r: bool)
    requires a is Some ==> f.requires((a->Some_0,)),
    ensures a is None ==> !r, a is Some ==> f.ensures((a->Some_0,), r);
pub assume_specification<T, U, F: FnOnce(T) -> U> [Option::<T>::map_or] (a: Option<T>, default: U, f: F) -> (r: U)
    requires a is Some ==> f.requires((a->Some_0,)),
    ensures a is None ==> r == default, a is Some ==> f.ensures((a->Some_0,), r);
pub assume_specification<T, P: FnOnce(&T) -> bool> [Option::<T>::filter] (a: Option<T>, p: P) -> (r: Option<T>)
    requires a is Some ==> p.requires((&a->Some_0,)),
    ensures a is None ==> r is None, r is Some ==> r == a,
            a is Some ==> (p.ensures((&a->Some_0,), true) ==> r == a) && (p.ensures((&a->Some_0,), false) ==> r is None),
        // the predicate returned SOME boolean for the element, and the result follows it
        a is Some ==> exists|__b: bool| p.ensures((&a->Some_0,), __b) && r == (if __b { a } else { None::<T> });
pub assume_specification<T, E, U, F: FnOnce(T) -> Result<U, E>> [Result::<T, E>::and_then] (a: Result<T, E>, f: F) -> (r: Result<U, E>)
    requires a is Ok ==> f.requires((a->Ok_0,)),
    ensures a is Err ==> r == Err::<U, E>(a->Err_0), a is Ok ==> f.ensures((a->Ok_0,), r);
pub assume_specification<T, E, U> [Result::<T, E>::and] (a: Result<T, E>, b: Result<U, E>) -> (r: Result<U, E>)
    ensures r == (if a is Ok { b } else { Err::<U, E>(a->Err_0) });
pub assume_specification<T, E, F> [Result::<T, E>::or] (a: Result<T, E>, b: Result<T, F>) -> (r: Result<T, F>)
    ensures r == (if a is Ok { Ok::<T, F>(a->Ok_0) } else { b });
pub assume_specification<T, E, F: FnOnce(T) -> bool> [Result::<T, E>::is_ok_and] (a: Result<T, E>, f: F) -> (r: bool)
    requires a is Ok ==> f.requires((a->Ok_0,)),
    ensures a is Err ==> !r, a is Ok ==> f.ensures((a->Ok_0,), r);
pub assume_specification<T, E> [Result::<T, E>::unwrap_or] (a: Result<T, E>, default: T) -> (r: T)
    ensures r == (if a is Ok { a->Ok_0 } else { default });
pub assume_specification<T, E, F: FnOnce(E) -> T> [Result::<T, E>::unwrap_or_else] (a: Result<T, E>, f: F) -> (r: T)
    requires a is Err ==> f.requires((a->Err_0,)),
    ensures a is Ok ==> r == a->Ok_0, a is Err ==> f.ensures((a->Err_0,), r);

// std::task::Poll predicates (no vstd specification; assumed, std definitions)
pub assume_specification<T> [ std::task::Poll::<T>::is_pending ] (p: &std::task::Poll<T>) -> (r: bool)
    ensures r == (*p is Pending);
pub assume_specification<T> [ std::task::Poll::<T>::is_ready ] (p: &std::task::Poll<T>) -> (r: bool)
    ensures r == (*p is Ready);
