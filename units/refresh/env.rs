// Environment of unit `refresh`: opaque rpki / crate types and ASSUMED
// contracts of what the refresh bookkeeping calls.

// ---- opaque types that only occur as field / parameter types
#[verifier::external_body] pub struct RsyncUri { _opaque: () }
#[verifier::external_body] pub struct HttpsUri { _opaque: () }
#[verifier::external_body] pub struct TalUri { _opaque: () }
#[verifier::external_body] pub struct Tal { _opaque: () }
#[verifier::external_body] pub struct TalInfo { _opaque: () }
#[verifier::external_body] pub struct Crl { _opaque: () }
#[verifier::external_body] pub struct Bytes { _opaque: () }
#[verifier::external_body] pub struct ManifestContent { _opaque: () }
#[verifier::external_body] pub struct Metrics { _opaque: () }
#[verifier::external_body] pub struct RejectedResourcesBuilder { _opaque: () }
#[verifier::external_body] pub struct RejectedResources { _opaque: () }
#[verifier::external_body] pub struct LocalExceptions { _opaque: () }
#[verifier::external_body] pub struct PayloadInfo { _opaque: () }
#[verifier::external_body] pub struct PublishInfo { _opaque: () }
#[verifier::external_body] pub struct RouterKey { _opaque: () }
#[verifier::external_body] pub struct RouterKeyInfo { _opaque: () }
#[verifier::external_body] pub struct RouterKeyInfoError { _opaque: () }
#[verifier::external_body] pub struct KeyIdentifier { _opaque: () }
#[verifier::external_body] pub struct PublicKey { _opaque: () }
#[verifier::external_body] pub struct Asn { _opaque: () }
#[verifier::external_body] pub struct SmallAsnSet { _opaque: () }
#[verifier::external_body] pub struct ProviderAsSet { _opaque: () }
#[verifier::external_body] pub struct AsBlocks { _opaque: () }
#[verifier::external_body] pub struct AsResources { _opaque: () }
#[verifier::external_body] pub struct InheritedAsResources { _opaque: () }
#[verifier::external_body] pub struct Prefix { _opaque: () }
#[verifier::external_body] pub struct MaxLenPrefix { _opaque: () }
#[verifier::external_body] pub struct AsProviderAttestation { _opaque: () }
#[verifier::external_body] pub struct RouteOriginAttestation { _opaque: () }
#[verifier::external_body] pub struct OriginIter { _opaque: () }
#[verifier::external_body] #[verifier::reject_recursive_types(T)] pub struct SegQueue<T> { _t: T }
#[verifier::external_body] pub struct AllVrpMetrics<'a> { _p: &'a Metrics }

// rpki::rtr::payload::RouteOrigin: declared here (the type lives in the rpki
// crate; PubPoint::add_roa reads its `prefix` field)
pub struct RouteOrigin { pub prefix: MaxLenPrefix, pub asn: Asn }

// ---- rpki::repository::x509::{Time, Validity}. ASSUMED: the derived Ord of
// Time is a total order, represented by an injective integer value.
#[derive(Clone, Copy)]
#[verifier::external_body] pub struct Time { _opaque: () }
#[derive(Clone, Copy)]
#[verifier::external_body] pub struct Validity { _opaque: () }

impl Time { pub uninterp spec fn val(&self) -> int; }
pub broadcast axiom fn time_val_injective(a: Time, b: Time)
    ensures #[trigger] a.val() == #[trigger] b.val() ==> a == b;

pub open spec fn int_cmp(a: int, b: int) -> Ordering {
    if a < b { Ordering::Less } else if a == b { Ordering::Equal } else { Ordering::Greater }
}
impl PartialEqSpecImpl for Time {
    open spec fn obeys_eq_spec() -> bool { true }
    open spec fn eq_spec(&self, other: &Time) -> bool { self.val() == other.val() }
}
impl PartialEq for Time {
    #[verifier::external_body]
    fn eq(&self, other: &Self) -> bool { unimplemented!() }
}
impl Eq for Time {}
impl PartialOrdSpecImpl for Time {
    open spec fn obeys_partial_cmp_spec() -> bool { true }
    open spec fn partial_cmp_spec(&self, other: &Time) -> Option<Ordering> { Some(int_cmp(self.val(), other.val())) }
}
impl PartialOrd for Time {
    #[verifier::external_body]
    fn partial_cmp(&self, other: &Time) -> Option<Ordering> { unimplemented!() }
}
impl OrdSpecImpl for Time {
    open spec fn obeys_cmp_spec() -> bool { true }
    open spec fn cmp_spec(&self, other: &Time) -> Ordering { int_cmp(self.val(), other.val()) }
}
impl Ord for Time {
    #[verifier::external_body]
    fn cmp(&self, other: &Time) -> Ordering { unimplemented!() }
}

pub uninterp spec fn clock_reading(t: Time) -> bool;
impl Time {
    #[verifier::external_body]
    pub fn now() -> (r: Time) ensures clock_reading(r), { unimplemented!() }
}
impl Validity {
    pub uninterp spec fn not_after_spec(&self) -> Time;
    pub uninterp spec fn not_before_spec(&self) -> Time;
    #[verifier::external_body]
    pub fn not_before(self) -> (r: Time) ensures r == self.not_before_spec(), { unimplemented!() }
    #[verifier::external_body]
    pub fn not_after(self) -> (r: Time) ensures r == self.not_after_spec(), { unimplemented!() }
    #[verifier::external_body]
    pub fn trim(self, other: Validity) -> (r: Validity) { unimplemented!() }
}

// ---- certificates (Cert's accessors are reached from ResourceCert through Deref)
#[verifier::external_body] pub struct Cert { _opaque: () }
#[verifier::external_body] pub struct ResourceCert { _opaque: () }
impl ResourceCert {
    pub uninterp spec fn validity_spec(&self) -> Validity;
    #[verifier::external_body]
    pub fn validity(&self) -> (r: Validity) ensures r == self.validity_spec(), { unimplemented!() }
    #[verifier::external_body]
    pub fn tal(&self) -> (r: &Arc<TalInfo>) { unimplemented!() }
}
impl Cert {
    pub uninterp spec fn validity_spec(&self) -> Validity;
    #[verifier::external_body]
    pub fn validity(&self) -> (r: Validity) ensures r == self.validity_spec(), { unimplemented!() }
    #[verifier::external_body]
    pub fn as_resources(&self) -> (r: &AsResources) { unimplemented!() }
    #[verifier::external_body]
    pub fn subject_key_identifier(&self) -> (r: KeyIdentifier) { unimplemented!() }
    #[verifier::external_body]
    pub fn subject_public_key_info(&self) -> (r: &PublicKey) { unimplemented!() }
}
impl AsResources {
    #[verifier::external_body]
    pub fn is_inherited(&self) -> (r: bool) { unimplemented!() }
    #[verifier::external_body]
    pub fn is_present(&self) -> (r: bool) { unimplemented!() }
    #[verifier::external_body]
    pub fn to_blocks(&self) -> (r: Result<AsBlocks, InheritedAsResources>) { unimplemented!() }
}
impl PublicKey {
    #[verifier::external_body]
    pub fn allow_router_cert(&self) -> (r: bool) { unimplemented!() }
    #[verifier::external_body]
    pub fn to_info_bytes(&self) -> (r: Bytes) { unimplemented!() }
}
impl RouterKeyInfo {
    #[verifier::external_body]
    pub fn new(bytes: Bytes) -> (r: Result<RouterKeyInfo, RouterKeyInfoError>) { unimplemented!() }
}
impl PublishInfo {
    #[verifier::external_body]
    pub fn signed_object(cert: &ResourceCert, ca_validity: Validity, point_stale: Time) -> (r: PublishInfo) { unimplemented!() }
    #[verifier::external_body]
    pub fn router_cert(cert: &Cert, uri: &RsyncUri, tal: Arc<TalInfo>, ca_validity: Validity, point_stale: Time)
        -> (r: PublishInfo) { unimplemented!() }
}

// ---- manifest / CRL deadlines
impl ManifestContent {
    pub uninterp spec fn this_update_spec(&self) -> Time;
    #[verifier::external_body]
    pub fn this_update(&self) -> (r: Time) ensures r == self.this_update_spec(), { unimplemented!() }
    #[verifier::external_body]
    pub fn is_stale(&self) -> (r: bool) { unimplemented!() }
    pub uninterp spec fn next_update_spec(&self) -> Time;
    #[verifier::external_body]
    pub fn next_update(&self) -> (r: Time) ensures r == self.next_update_spec(), { unimplemented!() }
}
impl Crl {
    #[verifier::external_body]
    pub fn is_stale(&self) -> (r: bool) { unimplemented!() }
    pub uninterp spec fn next_update_spec(&self) -> Time;
    #[verifier::external_body]
    pub fn next_update(&self) -> (r: Time) ensures r == self.next_update_spec(), { unimplemented!() }
}

// ---- ROA / ASPA content
impl Prefix {
    #[verifier::external_body]
    pub fn is_v4(self) -> (r: bool) { unimplemented!() }
    #[verifier::external_body]
    pub fn len(self) -> (r: u8) { unimplemented!() }
}
impl MaxLenPrefix {
    #[verifier::external_body]
    pub fn prefix(self) -> (r: Prefix) { unimplemented!() }
}
impl Clone for MaxLenPrefix { #[verifier::external_body] fn clone(&self) -> (r: Self) { unimplemented!() } }
impl Copy for MaxLenPrefix {}
impl RouteOriginAttestation {
    #[verifier::external_body]
    pub fn iter_origins(&self) -> (r: OriginIter) { unimplemented!() }
}
pub uninterp spec fn origin_iter_remaining(it: &OriginIter) -> Seq<RouteOrigin>;
pub uninterp spec fn origin_iter_count(it: &OriginIter) -> nat;
impl Iterator for OriginIter {
    type Item = RouteOrigin;
    #[verifier::external_body]
    fn next(&mut self) -> Option<RouteOrigin> { unimplemented!() }
}
impl vstd::std_specs::iter::IteratorSpecImpl for OriginIter {
    open spec fn obeys_prophetic_iter_laws(&self) -> bool { true }
    #[verifier::prophetic]
    open spec fn remaining(&self) -> Seq<RouteOrigin> { origin_iter_remaining(self) }
    open spec fn decrease(&self) -> Option<nat> { Some(origin_iter_count(self)) }
    #[verifier::prophetic]
    open spec fn will_return_none(&self) -> bool { true }
    open spec fn peek(&self, index: int) -> Option<RouteOrigin> { None }
}
impl AsProviderAttestation {
    #[verifier::external_body]
    pub fn customer_as(&self) -> (r: Asn) { unimplemented!() }
    #[verifier::external_body]
    pub fn provider_as_set(&self) -> (r: &ProviderAsSet) { unimplemented!() }
}
impl ProviderAsSet {
    #[verifier::external_body]
    pub fn to_set(&self) -> (r: SmallAsnSet) { unimplemented!() }
}

// crossbeam SegQueue::push through a shared reference: modelled as the monotone ghost fact
// "this value was pushed to this queue"
pub uninterp spec fn queue_pushed<T>(q: &SegQueue<T>, v: T) -> bool;
impl<T> SegQueue<T> {
    #[verifier::external_body]
    pub fn push(&self, value: T) ensures queue_pushed(self, value), { unimplemented!() }
}

// ---- derived impls of extracted crate types (attributes are dropped by extraction)
impl Clone for Failed { #[verifier::external_body] fn clone(&self) -> (r: Self) ensures r == *self, { unimplemented!() } }
impl Copy for Failed {}
impl Clone for FilterPolicy { #[verifier::external_body] fn clone(&self) -> (r: Self) ensures r == *self, { unimplemented!() } }
impl Copy for FilterPolicy {}
impl PartialEqSpecImpl for FilterPolicy {
    open spec fn obeys_eq_spec() -> bool { true }
    closed spec fn eq_spec(&self, other: &FilterPolicy) -> bool { *self == *other }
}
impl PartialEq for FilterPolicy {
    #[verifier::external_body]
    fn eq(&self, other: &Self) -> bool { unimplemented!() }
}
impl Eq for FilterPolicy {}
impl Clone for PubPoint { #[verifier::external_body] fn clone(&self) -> (r: Self) ensures r == *self, { unimplemented!() } }
impl<'a> Clone for PubPointProcessor<'a> { #[verifier::external_body] fn clone(&self) -> (r: Self) ensures r == *self, { unimplemented!() } }

// ---- the engine's processing traits (crate::engine), declared here with the
// methods this unit implements. The ghost supertrait carries the abstract
// effect of point_validity so that the generic caller
// (ValidPointManifest::point_validity) can be connected to the implementation.
pub trait ProcessPubPointSpec: Sized {
    spec fn pv_rel(pre: Self, manifest_ee: Validity, stale: Time, post: Self) -> bool;
}
pub trait ProcessPubPoint: Sized + ProcessPubPointSpec {
    fn point_validity(&mut self, manifest_ee: Validity, stale: Time)
        ensures Self::pv_rel(*old(self), manifest_ee, stale, *final(self));
    fn process_ca(&mut self, uri: &RsyncUri, cert: &CaCert) -> Result<Option<Self>, Failed>;
    fn process_router_cert(&mut self, uri: &RsyncUri, cert: Cert, ca_cert: &CaCert) -> Result<(), Failed>;
    fn process_roa(&mut self, uri: &RsyncUri, cert: ResourceCert, route: RouteOriginAttestation) -> Result<(), Failed>;
    fn process_aspa(&mut self, uri: &RsyncUri, cert: ResourceCert, aspa: AsProviderAttestation) -> Result<(), Failed>;
    fn restart(&mut self) -> Result<(), Failed>;
    fn repository_index(&mut self, repository_index: usize);
    fn want(&self, uri: &RsyncUri) -> Result<bool, Failed>;
    fn commit(self);
}
pub trait ProcessRun: Sized {
    type PubPoint: ProcessPubPoint;
    fn process_ta(&self, tal: &Tal, uri: &TalUri, cert: &CaCert, tal_index: usize)
        -> Result<Option<Self::PubPoint>, Failed>;
}

// ---- SnapshotBuilder's payload merging (not extracted here; the
// snapshot_builder unit owns it). ASSUMED frame: they do not touch `refresh`.
impl<'a> AllVrpMetrics<'a> {
    #[verifier::external_body]
    pub fn new(metrics: &'a mut Metrics, tal_index: usize, repo_index: Option<usize>) -> (r: AllVrpMetrics<'a>) { unimplemented!() }
}
impl<'a> SnapshotBuilder<'a> {
    #[verifier::external_body]
    fn process_origin(&mut self, origin: PubRouteOrigin, metrics: &mut AllVrpMetrics)
        ensures final(self).refresh == old(self).refresh,
    { unimplemented!() }
    #[verifier::external_body]
    fn process_key(&mut self, key: PubRouterKey, metrics: &mut AllVrpMetrics)
        ensures final(self).refresh == old(self).refresh,
    { unimplemented!() }
    #[verifier::external_body]
    fn process_aspa(&mut self, aspa: PubAspa, metrics: &mut AllVrpMetrics)
        ensures final(self).refresh == old(self).refresh,
    { unimplemented!() }
}
// ---- std functions without a vstd specification (ASSUMED: their std definitions).
// Declared so that a refactoring that starts using one of them is verified, not rejected.
pub assume_specification<T: Ord + core::marker::Destruct> [std::cmp::min] (a: T, b: T) -> (r: T)
    ensures T::obeys_cmp_spec() ==> r == (if b.cmp_spec(&a) == std::cmp::Ordering::Less { b } else { a }),
;
pub assume_specification<T: Ord + core::marker::Destruct> [std::cmp::max] (a: T, b: T) -> (r: T)
    ensures T::obeys_cmp_spec() ==> r == (if b.cmp_spec(&a) == std::cmp::Ordering::Less { a } else { b }),
;
pub assume_specification [std::cmp::Ordering::is_lt] (o: std::cmp::Ordering) -> (r: bool)
    ensures r == (o == std::cmp::Ordering::Less);
pub assume_specification [std::cmp::Ordering::is_gt] (o: std::cmp::Ordering) -> (r: bool)
    ensures r == (o == std::cmp::Ordering::Greater);
pub assume_specification [std::cmp::Ordering::is_le] (o: std::cmp::Ordering) -> (r: bool)
    ensures r == (o != std::cmp::Ordering::Greater);
pub assume_specification [std::cmp::Ordering::is_ge] (o: std::cmp::Ordering) -> (r: bool)
    ensures r == (o != std::cmp::Ordering::Less);
pub assume_specification<T: core::marker::Destruct> [bool::then_some] (b: bool, t: T) -> (r: Option<T>)
    ensures r == (if b { Some(t) } else { None::<T> });
pub assume_specification<T: core::marker::Destruct> [std::option::Option::<T>::xor] (a: Option<T>, b: Option<T>) -> (r: Option<T>)
    ensures r == (match (a, b) { (Some(x), None) => Some(x), (None, Some(y)) => Some(y), _ => None::<T> });
pub assume_specification<'a, T: Copy> [std::option::Option::<&T>::copied] (o: Option<&'a T>) -> (r: Option<T>)
    ensures r == (match o { Some(x) => Some(*x), None => None::<T> });
pub assume_specification<T: core::marker::Destruct> [std::option::Option::<T>::or] (a: Option<T>, b: Option<T>) -> (r: Option<T>)
    ensures r == (if a is Some { a } else { b });
pub assume_specification<T: core::marker::Destruct, U: core::marker::Destruct> [std::option::Option::<T>::and] (a: Option<T>, b: Option<U>) -> (r: Option<U>)
    ensures r == (if a is Some { b } else { None::<U> });
pub assume_specification<T: core::marker::Destruct, U: core::marker::Destruct> [std::option::Option::<T>::zip] (a: Option<T>, b: Option<U>) -> (r: Option<(T, U)>)
    ensures r == (match (a, b) { (Some(x), Some(y)) => Some((x, y)), _ => None::<(T, U)> });
pub assume_specification<T, F: FnOnce(T) -> bool + core::marker::Destruct> [std::option::Option::<T>::is_some_and] (o: Option<T>, f: F) -> (r: bool)
    requires o matches Some(x) ==> f.requires((x,)),
    ensures match o { Some(x) => f.ensures((x,), r), None => !r };
pub assume_specification<T, F: FnOnce(T) -> bool + core::marker::Destruct> [std::option::Option::<T>::is_none_or] (o: Option<T>, f: F) -> (r: bool)
    requires o matches Some(x) ==> f.requires((x,)),
    ensures match o { Some(x) => f.ensures((x,), r), None => r };
pub assume_specification<T: core::marker::Destruct, P: FnOnce(&T) -> bool + core::marker::Destruct> [std::option::Option::<T>::filter] (o: Option<T>, p: P) -> (r: Option<T>)
    requires o matches Some(x) ==> p.requires((&x,)),
    ensures match o { Some(x) => (r == Some(x) && p.ensures((&x,), true)) || (r is None && p.ensures((&x,), false)), None => r is None },
        // the predicate returned SOME boolean for the element, and the result follows it
        o is Some ==> exists|__b: bool| p.ensures((&o->Some_0,), __b) && r == (if __b { o } else { None::<T> });
pub assume_specification<T: core::marker::Destruct, F: FnOnce() -> Option<T> + core::marker::Destruct> [std::option::Option::<T>::or_else] (o: Option<T>, f: F) -> (r: Option<T>)
    requires o is None ==> f.requires(()),
    ensures match o { Some(x) => r == o, None => f.ensures((), r) };
pub assume_specification<T, U: core::marker::Destruct, F: FnOnce(T) -> U + core::marker::Destruct> [std::option::Option::<T>::map_or] (o: Option<T>, d: U, f: F) -> (r: U)
    requires o matches Some(x) ==> f.requires((x,)),
    ensures match o { Some(x) => f.ensures((x,), r), None => r == d };
pub assume_specification<T, U, D: FnOnce() -> U + core::marker::Destruct, F: FnOnce(T) -> U + core::marker::Destruct> [std::option::Option::<T>::map_or_else] (o: Option<T>, d: D, f: F) -> (r: U)
    requires o matches Some(x) ==> f.requires((x,)), o is None ==> d.requires(()),
    ensures match o { Some(x) => f.ensures((x,), r), None => d.ensures((), r) };
pub assume_specification<T: core::marker::Destruct, E: core::marker::Destruct> [std::result::Result::<T, E>::unwrap_or] (x: Result<T, E>, d: T) -> (r: T)
    ensures r == (match x { Ok(v) => v, Err(_) => d });
pub assume_specification<T, E: core::marker::Destruct, F: core::marker::Destruct> [std::result::Result::<T, E>::or] (a: Result<T, E>, b: Result<T, F>) -> (r: Result<T, F>)
    ensures match a { Ok(v) => r == Ok::<T, F>(v), Err(_) => r == b };
pub assume_specification<T, E, U, F: FnOnce(T) -> Result<U, E> + core::marker::Destruct> [std::result::Result::<T, E>::and_then] (x: Result<T, E>, f: F) -> (r: Result<U, E>)
    requires x matches Ok(v) ==> f.requires((v,)),
    ensures match x { Ok(v) => f.ensures((v,), r), Err(e) => r == Err::<U, E>(e) };
pub assume_specification<T, E: core::marker::Destruct, F: FnOnce(T) -> bool + core::marker::Destruct> [std::result::Result::<T, E>::is_ok_and] (x: Result<T, E>, f: F) -> (r: bool)
    requires x matches Ok(v) ==> f.requires((v,)),
    ensures match x { Ok(v) => f.ensures((v,), r), Err(_) => !r };
pub assume_specification<T, E, F: FnOnce(E) -> T + core::marker::Destruct> [std::result::Result::<T, E>::unwrap_or_else] (x: Result<T, E>, f: F) -> (r: T)
    requires x matches Err(e) ==> f.requires((e,)),
    ensures match x { Ok(v) => r == v, Err(e) => f.ensures((e,), r) };
pub assume_specification<T> [std::mem::replace] (dest: &mut T, src: T) -> (r: T)
    ensures r == *old(dest), *final(dest) == src;
pub assume_specification [<std::cmp::Ordering as PartialEq>::eq] (a: &std::cmp::Ordering, b: &std::cmp::Ordering) -> (r: bool)
    ensures r == (*a == *b);
