//@ fn CaCert::cert
//@ spec
    ensures res == &self.cert,
//@ fn ValidPointManifest::point_validity
//@ spec
    ensures
        // C39: the engine reports the manifest EE certificate's validity and the earlier of the
        // manifest's and the CRL's nextUpdate to the processor
        pv_rel_of(*old(processor), self.ee_cert.validity_spec(),
                  tmin(self.content.next_update_spec(), self.crl.next_update_spec()), *final(processor)),
//@ fn ProcessRun for &'a ValidationReport::process_ta
//@ spec
    ensures
        // C39: a trust anchor's point starts at its certificate's notAfter
        res matches Ok(Some(p)) ==> p.pp().wf() && p.pp().no_payload()
            && p.pp().rf() == cert.cert_spec().validity_spec().not_after_spec(),
//@ fn ProcessPubPoint for PubPointProcessor<'_>::point_validity
//@ spec
    ensures
        // C39: the deadline is not later than the manifest EE certificate's notAfter and the
        // manifest / CRL nextUpdate, and never moves later
        le(final(self).pp().rf(), manifest.not_after_spec()),
        le(final(self).pp().rf(), stale),
        final(self).pp().step_from(old(self).pp()),
        final(self).pp().same_payload(old(self).pp()),
//@ fn ProcessPubPoint for PubPointProcessor<'_>::process_ca
//@ spec
    ensures
        // C39: a child CA's point inherits its parent's deadline and is bounded by the CA certificate
        res matches Ok(Some(p)) ==> p.pp().wf() && p.pp().no_payload()
            && le(p.pp().rf(), old(self).pp().rf())
            && le(p.pp().rf(), cert.cert_spec().validity_spec().not_after_spec()),
        final(self).pp() == old(self).pp(),
//@ fn ProcessPubPoint for PubPointProcessor<'_>::process_router_cert
//@ spec
    ensures
        // C39: a router certificate that contributes a key bounds the deadline by its notAfter
        !final(self).pp().same_payload(old(self).pp())
            ==> le(final(self).pp().rf(), cert.validity_spec().not_after_spec()),
        final(self).pp().step_from(old(self).pp()),
//@ fn ProcessPubPoint for PubPointProcessor<'_>::process_roa
//@ spec
    ensures
        // C39: a ROA that contributes at least one VRP bounds the deadline by its EE certificate's notAfter
        !final(self).pp().same_payload(old(self).pp())
            ==> le(final(self).pp().rf(), cert.validity_spec().not_after_spec()),
        final(self).pp().step_from(old(self).pp()),
//@ fn ProcessPubPoint for PubPointProcessor<'_>::process_aspa
//@ spec
    ensures
        // C39: an ASPA that contributes bounds the deadline by its EE certificate's notAfter
        !final(self).pp().same_payload(old(self).pp())
            ==> le(final(self).pp().rf(), cert.validity_spec().not_after_spec()),
        final(self).pp().step_from(old(self).pp()),
//@ fn ProcessPubPoint for PubPointProcessor<'_>::restart
//@ spec
    ensures
        // C39: a restart forgets the point's own deadlines together with all its payload and
        // falls back to the inherited deadline
        final(self).pp().wf() && final(self).pp().no_payload(),
        final(self).pp().rf() == old(self).pp().orf(),
        final(self).pp().orf() == old(self).pp().orf(),
//@ fn ProcessPubPoint for PubPointProcessor<'_>::repository_index
//@ spec
    ensures final(self).pp().step_from(old(self).pp()), final(self).pp().same_payload(old(self).pp()),
        final(self).pp().rf() == old(self).pp().rf(),
//@ fn ProcessPubPoint for PubPointProcessor<'_>::commit
//@ spec
    ensures
        // C39: a point that carries payload is handed to the report with the deadline it has now;
        // a point without payload contributes nothing (and no deadline)
        !self.pp().no_payload() ==> queue_pushed(self.queue(), self.pp()),
//@ fn PubPoint::is_empty
//@ spec
    ensures res == self.no_payload(),
//@ fn FilterPolicy::log
//@ spec
    ensures res == (self is Reject || self is Warn),
//@ fn PubPoint::new
//@ spec
    ensures res.wf(), res.no_payload(), res.refresh == refresh, res.orig_refresh == refresh,
        res.tal_index == tal_index,
//@ fn PubPoint::new_ta
//@ spec
    ensures res.wf(), res.no_payload(),
        // C39
        res.refresh == cert.cert.validity_spec().not_after_spec(),
//@ fn PubPoint::new_ca
//@ spec
    ensures res.wf(), res.no_payload(),
        // C39
        le(res.refresh, parent.refresh), le(res.refresh, cert.cert.validity_spec().not_after_spec()),
//@ fn PubPoint::update_refresh
//@ spec
    ensures
        // C39: "no later than the given time", and never later than before
        le(final(self).refresh, refresh),
        final(self).step_from(*old(self)),
        final(self).same_payload(*old(self)),
//@ fn PubPoint::restart
//@ spec
    ensures final(self).wf(), final(self).no_payload(),
        final(self).refresh == old(self).orig_refresh,
        final(self).orig_refresh == old(self).orig_refresh,
//@ fn PubPoint::add_roa
//@ spec
    ensures
        // the result says whether any VRP was added
        res <==> final(self).origins@.len() > old(self).origins@.len(),
        !res ==> final(self).same_payload(*old(self)),
        final(self).refresh == old(self).refresh, final(self).orig_refresh == old(self).orig_refresh,
        final(self).router_keys@ == old(self).router_keys@, final(self).aspas@ == old(self).aspas@,
//@ loop 1
            invariant
                iter_1.obeys_prophetic_iter_laws(), iter_1.decrease() is Some,
                any <==> self.origins@.len() > old(self).origins@.len(),
                self.origins@.len() >= old(self).origins@.len(),
                !any ==> self.origins@ == old(self).origins@,
                self.refresh == old(self).refresh, self.orig_refresh == old(self).orig_refresh,
                self.router_keys@ == old(self).router_keys@, self.aspas@ == old(self).aspas@,
            decreases iter_1.decrease()->Some_0,
//@ fn PubPoint::add_router_key
//@ spec
    ensures
        final(self).refresh == old(self).refresh, final(self).orig_refresh == old(self).orig_refresh,
//@ fn PubPoint::add_aspa
//@ spec
    ensures
        final(self).refresh == old(self).refresh, final(self).orig_refresh == old(self).orig_refresh,
//@ fn SnapshotBuilder::update_refresh
//@ spec
    ensures
        // C39: the snapshot deadline is the minimum of the deadlines seen so far
        final(self).refresh matches Some(r) && le(r, refresh)
            && (old(self).refresh matches Some(o) ==> le(r, o)),
        final(self).refresh == Some(match old(self).refresh { Some(o) => tmin(o, refresh), None => refresh }),
//@ entry
        broadcast use time_val_injective;
//@ fn SnapshotBuilder::process_pub_point
//@ spec
    ensures
        // C39: after a point has been merged the snapshot deadline is not later than the point's
        // deadline nor than it was before
        final(self).refresh matches Some(r) && le(r, point.refresh)
            && (old(self).refresh matches Some(o) ==> le(r, o)),
//@ beforeloop 1
        let ghost r0 = self.refresh;
//@ loop 1
            invariant self.refresh == r0,
//@ loop 2
            invariant self.refresh == r0,
//@ loop 3
            invariant self.refresh == r0,
//@ global
pub closed spec fn le(a: Time, b: Time) -> bool { a.val() <= b.val() }

// the earlier of two times (std::cmp::min on Time)
pub closed spec fn tmin(a: Time, b: Time) -> Time { if b.val() < a.val() { b } else { a } }

pub closed spec fn pv_rel_of<T: ProcessPubPoint>(pre: T, manifest_ee: Validity, stale: Time, post: T) -> bool {
    T::pv_rel(pre, manifest_ee, stale, post)
}

impl PubPoint {
    pub closed spec fn rf(&self) -> Time { self.refresh }
    pub closed spec fn orf(&self) -> Time { self.orig_refresh }

    // the deadline is never later than the inherited one
    pub closed spec fn wf(&self) -> bool { le(self.refresh, self.orig_refresh) }

    pub closed spec fn no_payload(&self) -> bool {
        self.origins@.len() == 0 && self.router_keys@.len() == 0 && self.aspas@.len() == 0
    }

    pub closed spec fn same_payload(&self, o: PubPoint) -> bool {
        self.origins@ == o.origins@ && self.router_keys@ == o.router_keys@ && self.aspas@ == o.aspas@
    }

    // one bookkeeping step: the deadline does not move later, the inherited deadline stays
    pub closed spec fn step_from(&self, o: PubPoint) -> bool {
        le(self.refresh, o.refresh) && self.orig_refresh == o.orig_refresh && (o.wf() ==> self.wf())
    }
}

// ghost accessors (trait methods are public, the extracted structs are private to the unit)
impl<'a> PubPointProcessor<'a> {
    pub closed spec fn pp(&self) -> PubPoint { self.pub_point }
    pub closed spec fn queue(&self) -> &SegQueue<PubPoint> { &self.report.pub_points }
}
impl CaCert {
    pub closed spec fn cert_spec(&self) -> ResourceCert { self.cert }
}

// What PubPointProcessor::point_validity does with what the engine reports (C39).
impl<'a> ProcessPubPointSpec for PubPointProcessor<'a> {
    closed spec fn pv_rel(pre: Self, manifest_ee: Validity, stale: Time, post: Self) -> bool {
        &&& le(post.pub_point.refresh, manifest_ee.not_after_spec())
        &&& le(post.pub_point.refresh, stale)
        &&& post.pub_point.step_from(pre.pub_point)
        &&& post.pub_point.same_payload(pre.pub_point)
    }
}
