// Environment of unit `json_stream` (C18): rpki payload types and the opaque
// leaf appenders of the JSON text. All ASSUMED; nothing here is repository logic.

// ---- rpki::rtr payload types (opaque) and enums (public variants)
#[verifier::external_body] #[derive(Clone, Copy)] pub struct RouteOrigin { _opaque: u8 }
#[verifier::external_body] pub struct RouterKey { _opaque: () }
#[verifier::external_body] pub struct Aspa { _opaque: () }
#[verifier::external_body] pub struct ProviderAsns { _opaque: () }
#[verifier::external_body] #[derive(Clone, Copy)] pub struct Serial { _opaque: u32 }

#[derive(Clone, Copy)]
pub enum Action { Announce, Withdraw }

#[derive(Clone, Copy)]
pub enum PayloadType { Origin, RouterKey, Aspa }

#[derive(Clone, Copy)]
pub enum PayloadRef<'a> {
    Origin(RouteOrigin),
    RouterKey(&'a RouterKey),
    Aspa(&'a Aspa),
}

impl<'a> vstd::std_specs::convert::FromSpecImpl<&'a RouteOrigin> for PayloadRef<'a> {
    open spec fn obeys_from_spec() -> bool { true }
    open spec fn from_spec(v: &'a RouteOrigin) -> PayloadRef<'a> { PayloadRef::Origin(*v) }
}
impl<'a> From<&'a RouteOrigin> for PayloadRef<'a> {
    #[verifier::external_body]
    fn from(v: &'a RouteOrigin) -> PayloadRef<'a> { unimplemented!() }
}
impl<'a> vstd::std_specs::convert::FromSpecImpl<&'a RouterKey> for PayloadRef<'a> {
    open spec fn obeys_from_spec() -> bool { true }
    open spec fn from_spec(v: &'a RouterKey) -> PayloadRef<'a> { PayloadRef::RouterKey(v) }
}
impl<'a> From<&'a RouterKey> for PayloadRef<'a> {
    #[verifier::external_body]
    fn from(v: &'a RouterKey) -> PayloadRef<'a> { unimplemented!() }
}
impl<'a> vstd::std_specs::convert::FromSpecImpl<&'a Aspa> for PayloadRef<'a> {
    open spec fn obeys_from_spec() -> bool { true }
    open spec fn from_spec(v: &'a Aspa) -> PayloadRef<'a> { PayloadRef::Aspa(v) }
}
impl<'a> From<&'a Aspa> for PayloadRef<'a> {
    #[verifier::external_body]
    fn from(v: &'a Aspa) -> PayloadRef<'a> { unimplemented!() }
}

#[verifier::external_body] pub struct PayloadInfo { _opaque: () }
#[verifier::external_body] pub struct Utc { _opaque: () }
#[verifier::external_body] #[verifier::reject_recursive_types(T)] pub struct DateTime<T> { _t: T }
#[verifier::external_body] pub struct Time { _opaque: () }

// ---- bytes::Bytes: the chunk type of the response body
#[verifier::external_body] pub struct Bytes { _opaque: () }
impl Bytes { pub uninterp spec fn view(&self) -> Seq<u8>; }
impl vstd::std_specs::convert::FromSpecImpl<Vec<u8>> for Bytes {
    open spec fn obeys_from_spec() -> bool { true }
    open spec fn from_spec(v: Vec<u8>) -> Bytes { bytes_of(v@) }
}
impl From<Vec<u8>> for Bytes {
    #[verifier::external_body]
    fn from(v: Vec<u8>) -> Bytes { unimplemented!() }
}
pub uninterp spec fn bytes_of(s: Seq<u8>) -> Bytes;
pub broadcast axiom fn axiom_bytes_of(s: Seq<u8>)
    ensures (#[trigger] bytes_of(s)).view() == s;

// ---- the ghost token trace of rendered text. Each leaf appender below
// (the functions of src/http/delta.rs that contain the format strings) is
// OPAQUE: its rendered text is not modelled, it appends exactly one token.
// Item(p, first): the JSON object for payload p, preceded by a comma unless first.
pub enum Tok<'a> { Header, Item(PayloadRef<'a>, bool), Sep, Footer }
pub uninterp spec fn trace<'a>(bytes: Seq<u8>) -> Seq<Tok<'a>>;
// ASSUMED: nothing rendered, nothing traced
pub broadcast axiom fn axiom_trace_empty<'a>()
    ensures #[trigger] trace::<'a>(Seq::<u8>::empty()) == Seq::<Tok<'a>>::empty();

// rpki::rtr::server::PayloadSet: only named by a `use` inside SnapshotStream::next;
// its one method `next` is extracted from `impl PayloadSet for SnapshotArcIter`
// as an inherent method, so the trait itself is an empty marker here.
pub trait PayloadSet { }
