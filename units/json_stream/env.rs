// Environment of unit `json_stream` (C18): rpki payload types and the opaque
// leaf appenders of the JSON text. All ASSUMED; nothing here is repository logic.

// ---- rpki::rtr payload types (opaque) and enums (public variants)
#[verifier::external_body] #[derive(Clone, Copy)] pub struct RouteOrigin { _opaque: u8 }
#[verifier::external_body] pub struct RouterKey { _opaque: () }
// rpki::rtr::payload::Aspa (two public fields)
#[verifier::external_body] #[derive(Clone, Copy)] pub struct Asn { _opaque: u32 }
pub struct Aspa { pub customer: Asn, pub providers: ProviderAsns }
#[verifier::external_body] pub struct ProviderAsns { _opaque: () }
#[verifier::external_body] #[derive(Clone, Copy)] pub struct Serial { _opaque: u32 }

#[derive(Clone, Copy)]
pub enum Action { Announce, Withdraw }

#[derive(Clone, Copy)]
pub enum PayloadType { Origin, RouterKey, Aspa }

#[derive(Clone, Copy)]
pub enum PayloadRef<'a> {
    Origin(RouteOrigin),
    RouterKey(&'a RouterKey),
    Aspa(&'a Aspa),
}

impl<'a> vstd::std_specs::convert::FromSpecImpl<&'a RouteOrigin> for PayloadRef<'a> {
    open spec fn obeys_from_spec() -> bool { true }
    open spec fn from_spec(v: &'a RouteOrigin) -> PayloadRef<'a> { PayloadRef::Origin(*v) }
}
impl<'a> From<&'a RouteOrigin> for PayloadRef<'a> {
    #[verifier::external_body]
    fn from(v: &'a RouteOrigin) -> PayloadRef<'a> { unimplemented!() }
}
impl<'a> vstd::std_specs::convert::FromSpecImpl<&'a RouterKey> for PayloadRef<'a> {
    open spec fn obeys_from_spec() -> bool { true }
    open spec fn from_spec(v: &'a RouterKey) -> PayloadRef<'a> { PayloadRef::RouterKey(v) }
}
impl<'a> From<&'a RouterKey> for PayloadRef<'a> {
    #[verifier::external_body]
    fn from(v: &'a RouterKey) -> PayloadRef<'a> { unimplemented!() }
}
impl<'a> vstd::std_specs::convert::FromSpecImpl<&'a Aspa> for PayloadRef<'a> {
    open spec fn obeys_from_spec() -> bool { true }
    open spec fn from_spec(v: &'a Aspa) -> PayloadRef<'a> { PayloadRef::Aspa(v) }
}
impl<'a> From<&'a Aspa> for PayloadRef<'a> {
    #[verifier::external_body]
    fn from(v: &'a Aspa) -> PayloadRef<'a> { unimplemented!() }
}

#[verifier::external_body] pub struct PayloadInfo { _opaque: () }
#[verifier::external_body] pub struct Utc { _opaque: () }
#[verifier::external_body] #[verifier::reject_recursive_types(T)] pub struct DateTime<T> { _t: T }
#[verifier::external_body] pub struct Time { _opaque: () }

// ---- bytes::Bytes: the chunk type of the response body
#[verifier::external_body] pub struct Bytes { _opaque: () }
impl Bytes { pub uninterp spec fn view(&self) -> Seq<u8>; }
impl vstd::std_specs::convert::FromSpecImpl<Vec<u8>> for Bytes {
    open spec fn obeys_from_spec() -> bool { true }
    open spec fn from_spec(v: Vec<u8>) -> Bytes { bytes_of(v@) }
}
impl From<Vec<u8>> for Bytes {
    #[verifier::external_body]
    fn from(v: Vec<u8>) -> Bytes { unimplemented!() }
}
pub uninterp spec fn bytes_of(s: Seq<u8>) -> Bytes;
pub broadcast axiom fn axiom_bytes_of(s: Seq<u8>)
    ensures (#[trigger] bytes_of(s)).view() == s;

// ---- the ghost token trace of rendered text. Each leaf appender below
// (the functions of src/http/delta.rs that contain the format strings) is
// OPAQUE: its rendered text is not modelled, it appends exactly one token.
// Item(p, first): the JSON object for payload p, preceded by a comma unless first.
// Header(session, from_serial (None: reset document), to_serial): the opening part of the document.
pub enum Tok<'a> { Header(u64, Option<Serial>, Serial), Item(PayloadRef<'a>, bool), Sep, Footer }
pub uninterp spec fn trace<'a>(bytes: Seq<u8>) -> Seq<Tok<'a>>;
// ASSUMED: nothing rendered, nothing traced
pub broadcast axiom fn axiom_trace_empty<'a>()
    ensures #[trigger] trace::<'a>(Seq::<u8>::empty()) == Seq::<Tok<'a>>::empty();

// rpki::rtr::server::PayloadSet: only named by a `use` inside SnapshotStream::next;
// its one method `next` is extracted from `impl PayloadSet for SnapshotArcIter`
// as an inherent method, so the trait itself is an empty marker here.
pub trait PayloadSet { }

// ---- further API of the env types used in src/http/delta.rs and the payload modules
impl Serial {
    pub uninterp spec fn u32_spec(&self) -> u32;
    #[verifier::external_body]
    pub fn add(self, other: u32) -> Serial { unimplemented!() }
}
impl vstd::std_specs::convert::FromSpecImpl<u32> for Serial {
    open spec fn obeys_from_spec() -> bool { false }
    uninterp spec fn from_spec(v: u32) -> Serial;
}
impl From<u32> for Serial {
    #[verifier::external_body]
    fn from(value: u32) -> (r: Serial) ensures r.u32_spec() == value,
    { unimplemented!() }
}
impl PartialEqSpecImpl for Serial {
    open spec fn obeys_eq_spec() -> bool { true }
    open spec fn eq_spec(&self, other: &Serial) -> bool { *self == *other }
}
impl PartialEq for Serial {
    #[verifier::external_body]
    fn eq(&self, other: &Self) -> bool { unimplemented!() }
}
impl Bytes {
    #[verifier::external_body]
    pub fn len(&self) -> (r: usize) ensures r == self@.len(),
    { unimplemented!() }
    #[verifier::external_body]
    pub fn is_empty(&self) -> (r: bool) ensures r == (self@.len() == 0),
    { unimplemented!() }
    #[verifier::external_body]
    pub fn new() -> (r: Bytes) ensures r@ == Seq::<u8>::empty(),
    { unimplemented!() }
}
impl<'a> vstd::std_specs::convert::FromSpecImpl<RouteOrigin> for PayloadRef<'a> {
    open spec fn obeys_from_spec() -> bool { true }
    open spec fn from_spec(v: RouteOrigin) -> PayloadRef<'a> { PayloadRef::Origin(v) }
}
impl<'a> From<RouteOrigin> for PayloadRef<'a> {
    #[verifier::external_body]
    fn from(v: RouteOrigin) -> PayloadRef<'a> { unimplemented!() }
}

// ---- std functions without a vstd specification (ASSUMED; their documented meaning)
pub assume_specification<T, E> [std::result::Result::<T, E>::unwrap_or] (_0: std::result::Result<T, E>, _1: T) -> (r: T)
    where E: std::marker::Destruct, T: std::marker::Destruct,
    ensures r == (match _0 { Ok(v) => v, Err(_) => _1 }),
;
pub assume_specification<T, E> [std::result::Result::<T, E>::unwrap_or_default] (_0: std::result::Result<T, E>) -> (r: T)
    where E: std::marker::Destruct, T: std::default::Default + std::marker::Destruct,
    ensures _0 matches Ok(v) ==> r == v,
;
pub assume_specification<T> [std::cmp::min] (_0: T, _1: T) -> (r: T)
    where T: std::cmp::Ord + std::marker::Destruct,
    ensures T::obeys_cmp_spec() ==> r == (if _0.cmp_spec(&_1) == std::cmp::Ordering::Greater { _1 } else { _0 }),
;
pub assume_specification<T> [std::cmp::max] (_0: T, _1: T) -> (r: T)
    where T: std::cmp::Ord + std::marker::Destruct,
    ensures T::obeys_cmp_spec() ==> r == (if _0.cmp_spec(&_1) == std::cmp::Ordering::Greater { _0 } else { _1 }),
;
pub assume_specification<T> [<[T]>::contains] (_0: &[T], _1: &T) -> (r: bool)
    where T: std::cmp::PartialEq,
    ensures T::obeys_eq_spec() ==> r == exists|i: int| 0 <= i < _0@.len() && (#[trigger] _0@[i]).eq_spec(_1),
;
pub assume_specification<T, P> [std::option::Option::<T>::filter] (_0: std::option::Option<T>, _1: P) -> (r: std::option::Option<T>)
    where P: std::ops::FnOnce(&T,) -> bool + std::marker::Destruct, T: std::marker::Destruct,
    ensures _0 is None ==> r is None,
            r matches Some(v) ==> _0 == Some(v) && _1.ensures((&v,), true),
            (_0 is Some && r is None) ==> _1.ensures((&_0->Some_0,), false),
        // the predicate returned SOME boolean for the element, and the result follows it
        _0 is Some ==> exists|__b: bool| _1.ensures((&_0->Some_0,), __b) && r == (if __b { _0 } else { None::<T> });
pub assume_specification<'a, T> [std::option::Option::<&T>::copied] (_0: std::option::Option<&'a T>) -> (r: std::option::Option<T>)
    where T: std::marker::Copy,
    ensures r == (match _0 { Some(v) => Some(*v), None => None }),
;
pub assume_specification<T, U, F> [std::option::Option::<T>::map_or] (_0: std::option::Option<T>, _1: U, _2: F) -> (r: U)
    where F: std::ops::FnOnce(T,) -> U + std::marker::Destruct, U: std::marker::Destruct,
    ensures _0 is None ==> r == _1,
            _0 matches Some(v) ==> _2.ensures((v,), r),
;
pub assume_specification<T> [std::option::Option::<T>::or] (_0: std::option::Option<T>, _1: std::option::Option<T>) -> (r: std::option::Option<T>)
    where T: std::marker::Destruct,
    ensures r == (if _0 is Some { _0 } else { _1 }),
;

// ---- C18, inside one item: fragments of rendered text. Rule R2t replaces every
// `write!(vec, "LITERAL", ..)` by `write_tagged(vec, TAG)` where TAG identifies the format
// literal (hash of its source text): the text stays opaque, but WHICH literal is written,
// how often and in which order is decided. `frags` is the fragment view of a byte buffer.
pub enum Frag { Comma, Lit(u64) }
pub uninterp spec fn frags(bytes: Seq<u8>) -> Seq<Frag>;

#[verifier::external_body]
pub fn write_tagged(sink: &mut Vec<u8>, tag: u64)
    ensures frags(final(sink)@) == frags(old(sink)@).push(Frag::Lit(tag)),
{ unimplemented!() }

// ASSUMED: a pushed b',' is a comma fragment
pub broadcast axiom fn axiom_frags_comma(s: Seq<u8>)
    ensures #[trigger] frags(s.push(44u8)) == frags(s).push(Frag::Comma);

impl ProviderAsns {
    // the provider ASNs in order
    pub uninterp spec fn asns_spec(&self) -> Seq<Asn>;
    #[verifier::external_body]
    pub fn iter(&self) -> (r: ProviderAsnsIter<'_>)
        ensures r.remaining() == self.asns_spec(), r.obeys_prophetic_iter_laws(), r.decrease() is Some,
    { unimplemented!() }
    #[verifier::external_body]
    pub fn asn_count(&self) -> (r: u16) ensures r == self.asns_spec().len(),
    { unimplemented!() }
    #[verifier::external_body]
    pub fn is_empty(&self) -> (r: bool) ensures r == (self.asns_spec().len() == 0),
    { unimplemented!() }
}
#[verifier::external_body] pub struct ProviderAsnsIter<'a> { _p: &'a ProviderAsns }
impl<'a> Iterator for ProviderAsnsIter<'a> {
    type Item = Asn;
    #[verifier::external_body]
    fn next(&mut self) -> Option<Asn> { unimplemented!() }
}
