//@ fn StandardDelta::get
//@ spec
    ensures
        idx < self.items@.len() ==> res == Some((&self.items@[idx as int].0, self.items@[idx as int].1)),
        idx >= self.items@.len() ==> res is None,
//@ closure map 1 optional
|item: &(P, Action)| -> (r: (&P, Action)) ensures r == (&item.0, item.1)
//@ fn AspaDelta::get
//@ spec
    ensures
        idx < self.items@.len() ==> res == Some((&self.items@[idx as int].0, aspa_action(&self.items@[idx as int].1))),
        idx >= self.items@.len() ==> res is None,
//@ closure map 1 optional
|item: &(Aspa, AspaAction)| -> (r: (&Aspa, Action)) ensures r == (&item.0, aspa_action(&item.1))
//@ fn DeltaArcIter::new
//@ spec
    ensures res.delta == delta, res.wf(), res.pos() == 0,
//@ fn DeltaArcIter::next
//@ spec
    requires old(self).wf(),
    ensures
        final(self).wf(), final(self).delta == old(self).delta,
        // C18: the iterator yields the delta's items in order: origins, router keys, ASPAs,
        // each exactly once, then None forever
        res matches Some(x) ==> old(self).pos() < flat_len(&old(self).delta)
            && x == flat_at(&old(self).delta, old(self).pos()) && final(self).pos() == old(self).pos() + 1,
        res is None ==> old(self).pos() == flat_len(&old(self).delta) && final(self).pos() == old(self).pos(),
//@ entry
        proof {
            // Vec lengths are bounded by usize::MAX (vstd: the spec-mode len() is a usize)
            let n1 = self.delta.origins.items.len(); let n2 = self.delta.router_keys.items.len();
            let n3 = self.delta.aspas.items.len();
        }
//@ fn PayloadCollection::get
//@ spec
    ensures
        idx < self.vec@.len() ==> res == Some((&self.vec@[idx as int].0, &self.vec@[idx as int].1)),
        idx >= self.vec@.len() ==> res is None,
//@ closure map 1 optional
|item: &(P, PayloadInfo)| -> (r: (&P, &PayloadInfo)) ensures r == (&item.0, &item.1)
//@ fn SnapshotArcIter::new
//@ spec
    ensures res.snapshot == snapshot, res.wf(), res.pos() == 0,
//@ fn SnapshotArcIter::next_with_info
//@ spec
    requires old(self).wf(),
    ensures
        final(self).wf(), final(self).snapshot == old(self).snapshot,
        // C18: the iterator yields the data set's items in order: origins, router keys, ASPAs,
        // each exactly once, then None forever
        res matches Some(x) ==> old(self).pos() < snap_len(&old(self).snapshot)
            && x.0 == snap_at(&old(self).snapshot, old(self).pos()) && final(self).pos() == old(self).pos() + 1,
        res is None ==> old(self).pos() == snap_len(&old(self).snapshot) && final(self).pos() == old(self).pos(),
//@ entry
        proof {
            let n1 = self.snapshot.origins.vec.len(); let n2 = self.snapshot.router_keys.vec.len();
            let n3 = self.snapshot.aspas.vec.len();
        }
//@ fn SnapshotArcIter::next
//@ spec
    requires old(self).wf(),
    ensures
        final(self).wf(), final(self).snapshot == old(self).snapshot,
        res matches Some(x) ==> old(self).pos() < snap_len(&old(self).snapshot)
            && x == snap_at(&old(self).snapshot, old(self).pos()) && final(self).pos() == old(self).pos() + 1,
        res is None ==> old(self).pos() == snap_len(&old(self).snapshot) && final(self).pos() == old(self).pos(),
//@ closure map 1 optional
|__cp1: (PayloadRef<'_>, &PayloadInfo)| -> (r: PayloadRef<'_>) ensures r == __cp1.0
//@ prelude
// ---- C18: the rendering of ONE item as a sequence of text fragments -------------------
// The six format literals of DeltaStream::append_payload, pinned by the tag rule R2t computes
// from their source text (an edited literal gets another tag and no longer matches). Their
// reviewed shapes:
//   T_ORIGIN     one complete JSON object   { "type": "routeOrigin", "asn", "prefix", "maxLength" }
//   T_ROUTER_KEY one complete JSON object   { "type": "routerKey", "keyIdentifier", "asn", "keyInfo" }
//   T_ASPA_HEAD  { "type": "aspa", "customerAsn": "..", "providerAsns": [      (opens object and array)
//   T_PROV_FIRST "ASn"                                                          (one array element)
//   T_PROV_NEXT  , "ASn"                                                        (separator + one element)
//   T_ASPA_TAIL  ] }                                                            (closes array and object)
pub spec const T_ORIGIN: u64 = 0x78c893f404a134fu64;
pub spec const T_ROUTER_KEY: u64 = 0x70e21e577c51d45u64;
pub spec const T_ASPA_HEAD: u64 = 0xfc677c3459dd664u64;
pub spec const T_PROV_FIRST: u64 = 0xa7ef4e401fef544u64;
pub spec const T_PROV_NEXT: u64 = 0xcdcaca296629dd4u64;
pub spec const T_ASPA_TAIL: u64 = 0xd5db0401f97af17u64;

// the elements of the providerAsns array for the first n providers: the first element
// without, every further element with a leading separator - for n == 0 nothing at all,
// so that the array reads `[` `]`
pub open spec fn provider_frags(n: int) -> Seq<Frag>
    decreases n
{
    if n <= 0 { Seq::empty() }
    else if n == 1 { seq![Frag::Lit(T_PROV_FIRST)] }
    else { provider_frags(n - 1).push(Frag::Lit(T_PROV_NEXT)) }
}

// the fragments of one item: one object; an ASPA is head `[` elements `]` tail with exactly
// one element per provider
pub open spec fn item_frags(p: PayloadRef) -> Seq<Frag> {
    match p {
        PayloadRef::Origin(_) => seq![Frag::Lit(T_ORIGIN)],
        PayloadRef::RouterKey(_) => seq![Frag::Lit(T_ROUTER_KEY)],
        PayloadRef::Aspa(a) => seq![Frag::Lit(T_ASPA_HEAD)] + provider_frags(a.providers.asns_spec().len() as int)
                                + seq![Frag::Lit(T_ASPA_TAIL)],
    }
}

// an item in a list: a comma unless it is the first, then the item
pub open spec fn listed_item_frags(p: PayloadRef, first: bool) -> Seq<Frag> {
    (if first { Seq::<Frag>::empty() } else { seq![Frag::Comma] }) + item_frags(p)
}

// ASSUMED (tokenisation): a buffer extended by exactly the fragments of one listed item is
// extended by exactly one Item token
pub broadcast axiom fn axiom_item_token(b1: Seq<u8>, b2: Seq<u8>, p: PayloadRef, first: bool)
    ensures #[trigger] frags(b2) == #[trigger] frags(b1) + #[trigger] listed_item_frags(p, first)
        ==> trace(b2) == trace(b1).push(Tok::Item(p, first));

// The leaf appenders of DeltaStream (ASSUMED contracts; bodies are format strings).
impl DeltaStream {
    // ASSUMED additionally: the rendered header (fixed text, three numbers, a date) is
    // shorter than the 64000 byte chunk limit
    #[verifier::external_body]
    fn append_header(vec: &mut Vec<u8>, session: u64, from_serial: Serial, to_serial: Serial, created: DateTime<Utc>)
        ensures trace(final(vec)@) == trace(old(vec)@).push(Tok::Header(session, Some(from_serial), to_serial)),
                old(vec)@.len() == 0 ==> final(vec)@.len() <= 64000,
    { unimplemented!() }

    #[verifier::external_body]
    fn append_separator(vec: &mut Vec<u8>)
        ensures trace(final(vec)@) == trace(old(vec)@).push(Tok::Sep),
    { unimplemented!() }

    #[verifier::external_body]
    fn append_footer(vec: &mut Vec<u8>)
        ensures trace(final(vec)@) == trace(old(vec)@).push(Tok::Footer),
    { unimplemented!() }
}
impl SnapshotStream {
    #[verifier::external_body]
    fn append_header(vec: &mut Vec<u8>, session: u64, to_serial: Serial, created: DateTime<Utc>)
        ensures trace(final(vec)@) == trace(old(vec)@).push(Tok::Header(session, None, to_serial)),
                old(vec)@.len() == 0 ==> final(vec)@.len() <= 64000,
    { unimplemented!() }
}
//@ fn PayloadDelta::serial
//@ spec
    ensures res == self.serial,
//@ fn PayloadDelta::arc_iter
//@ spec
    ensures res.delta == self, res.wf(), res.pos() == 0,
//@ fn PayloadSnapshot::arc_iter
//@ spec
    ensures res.snapshot == self, res.wf(), res.pos() == 0,
//@ fn DeltaStream::new
//@ spec
    ensures
        res.withdraw is Some, res.dl() == &*delta, res.wf(&*delta),
        // C18: a new stream has the whole document still to produce:
        // header, announced items, separator, withdrawn items, footer
        res.rest(&*delta) == delta_document(&*delta, session, from_serial, to_serial),
//@ entry
        broadcast use axiom_trace_empty;
//@ fn SnapshotStream::new
//@ spec
    ensures
        res.iter is Some, res.sn() == &*snapshot, res.wf(&*snapshot),
        // C18: a new stream has the whole document still to produce: header, all items, footer
        res.rest(&*snapshot) == snapshot_document(&*snapshot, session, to_serial),
//@ entry
        broadcast use axiom_trace_empty;
//@ fn SnapshotStream::next
//@ spec
    requires
        old(self).iter is Some ==> old(self).wf(old(self).sn()),
    ensures
        // C18: once the footer is out the iterator is fused
        old(self).iter is None ==> res is None && *final(self) == *old(self),
        // C18: each chunk is exactly the next part of the remaining document, for every
        // position of the 64000 byte boundary
        old(self).iter is Some ==> {
            &&& res matches Some(chunk)
            &&& old(self).rest(old(self).sn()) == trace(chunk@) + final(self).rest(old(self).sn())
            &&& final(self).iter is Some ==> final(self).sn() == old(self).sn() && final(self).wf(old(self).sn())
            &&& final(self).iter is None ==> final(self).rest(old(self).sn()) == Seq::<Tok>::empty()
            // and the stream ends after finitely many chunks
            &&& final(self).measure(old(self).sn()) < old(self).measure(old(self).sn())
        },
//@ entry
        let ghost s0 = self.sn();
        let ghost p0 = self.iter->Some_0.pos();
        broadcast use axiom_trace_empty, axiom_bytes_of, lemma_push_concat, axiom_item_token;
//@ loop 1
            invariant
                iter.wf(), *iter.snapshot == *s0, self.header is None,
                p0 <= iter.pos() <= snap_len(s0),
                first == (iter.pos() == 0),
                iter.pos() == p0 ==> vec@.len() <= 64000,
                // C18
                trace(vec@) + snap_rest(s0, iter.pos(), first) + seq![Tok::Footer] == old(self).rest(s0),
            decreases snap_len(s0) - iter.pos(),
//@ loopentry 1
            broadcast use axiom_trace_empty, axiom_bytes_of, lemma_push_concat, axiom_item_token;
//@ fn DeltaStream::append_payload
//@ spec
    ensures
        // C18: the text appended for one item is, for every payload and every number of
        // providers (zero included), exactly: separator unless first, then the item's object;
        // an ASPA's providerAsns array has one element per provider, bracket opened and closed once
        frags(final(vec)@) == frags(old(vec)@) + listed_item_frags(payload, first),
//@ entry
        broadcast use axiom_frags_comma;
        let ghost b0 = vec@;
        let ghost f0 = frags(vec@);
//@ beforeloop 1
                let ghost f1 = frags(vec@);
                let ghost provs = aspa.providers.asns_spec();
//@ loopvar 1 it
//@ loop 1
                    invariant
                        it.iter.obeys_prophetic_iter_laws(),
                        it.seq() == provs,
                        0 <= it.index@ <= provs.len(),
                        first == (it.index@ == 0),
                        // C18: one array element per provider so far
                        frags(vec@) == f1 + provider_frags(it.index@),
//@ fn DeltaStream::next_announce
//@ spec
    requires
        old(self).header is None, old(self).withdraw is Some,
        old(self).wf(old(self).dl()),
    ensures
        final(self).header is None, final(self).withdraw is Some,
        final(self).dl() == old(self).dl(),
        final(self).wf(old(self).dl()),
        // C18: what this call appended is exactly the next part of the remaining output
        trace(old(vec)@) + old(self).rest(old(self).dl())
            == trace(final(vec)@) + final(self).rest(old(self).dl()),
        // progress: true <=> something was appended
        res ==> final(self).measure(old(self).dl()) < old(self).measure(old(self).dl()),
        !res ==> old(self).announce is None && *final(self) == *old(self) && final(vec)@ == old(vec)@,
//@ entry
        let ghost d0 = self.dl();
        let ghost p0 = self.announce->Some_0.pos();
        broadcast use lemma_push_concat, axiom_item_token;
//@ loop 1
                invariant
                    old(self).header is None, old(self).withdraw is Some, old(self).announce is Some,
                    old(self).wf(d0), d0 == old(self).dl(), p0 == old(self).announce->Some_0.pos(),
                    announce.wf(), *announce.delta == *d0,
                    self.withdraw == old(self).withdraw, self.header is None, self.first == old(self).first,
                    vec@ == old(vec)@,
                    p0 <= announce.pos() <= flat_len(d0),
                    (announce.pos() == 0 ==> self.first),
                    // C18: skipping withdrawn items does not change what is still to be announced
                    rest_items(d0, announce.pos(), Action::Announce, self.first)
                        == rest_items(d0, p0, Action::Announce, self.first),
                decreases flat_len(d0) - announce.pos(),
//@ loopentry 1
                broadcast use lemma_push_concat, axiom_item_token;
//@ fn DeltaStream::next_withdraw
//@ spec
    requires
        old(self).header is None, old(self).announce is None, old(self).withdraw is Some,
        old(self).wf(old(self).dl()),
    ensures
        final(self).header is None, final(self).announce is None,
        // C18: what this call appended is exactly the next part of the remaining output
        trace(old(vec)@) + old(self).rest(old(self).dl())
            == trace(final(vec)@) + final(self).rest(old(self).dl()),
        // true: an item was appended, more may follow; false: the footer was appended, the stream is complete
        res ==> final(self).withdraw is Some && final(self).dl() == old(self).dl() && final(self).wf(old(self).dl())
                && final(self).measure(old(self).dl()) < old(self).measure(old(self).dl()),
        !res ==> final(self).withdraw is None,
//@ entry
        let ghost d0 = self.dl();
        let ghost p0 = self.withdraw->Some_0.pos();
        broadcast use lemma_push_concat, axiom_item_token;
//@ loop 1
                invariant
                    old(self).header is None, old(self).withdraw is Some, old(self).announce is None,
                    old(self).wf(d0), d0 == old(self).dl(), p0 == old(self).withdraw->Some_0.pos(),
                    withdraw.wf(), *withdraw.delta == *d0,
                    self.announce is None, self.header is None, self.first == old(self).first,
                    vec@ == old(vec)@,
                    p0 <= withdraw.pos() <= flat_len(d0),
                    // C18: skipping announced items does not change what is still to be withdrawn
                    rest_items(d0, withdraw.pos(), Action::Withdraw, self.first)
                        == rest_items(d0, p0, Action::Withdraw, self.first),
                decreases flat_len(d0) - withdraw.pos(),
//@ loopentry 1
                broadcast use lemma_push_concat, axiom_item_token;
//@ fn DeltaStream::next
//@ spec
    requires
        old(self).withdraw is Some ==> old(self).wf(old(self).dl()),
    ensures
        // C18: once the footer is out the iterator is fused
        old(self).withdraw is None ==> res is None && *final(self) == *old(self),
        // C18: each chunk is exactly the next part of the remaining document, for every
        // position of the 64000 byte boundary
        old(self).withdraw is Some ==> {
            &&& res matches Some(chunk)
            &&& old(self).rest(old(self).dl()) == trace(chunk@) + final(self).rest(old(self).dl())
            &&& final(self).withdraw is Some ==> final(self).dl() == old(self).dl() && final(self).wf(old(self).dl())
            &&& final(self).withdraw is None ==> final(self).rest(old(self).dl()) == Seq::<Tok>::empty()
            // and the stream ends after finitely many chunks
            &&& final(self).measure(old(self).dl()) < old(self).measure(old(self).dl())
        },
//@ entry
        let ghost d0 = self.dl();
        broadcast use axiom_trace_empty, axiom_bytes_of;
//@ loop 1
            invariant
                old(self).withdraw is Some, d0 == old(self).dl(),
                self.header is None, self.withdraw is Some, self.dl() == d0, self.wf(d0),
                // C18
                trace(vec@) + self.rest(d0) == old(self).rest(d0),
                self.measure(d0) <= old(self).measure(d0),
                vec@.len() == 0 || self.measure(d0) < old(self).measure(d0),
            decreases self.measure(d0),
//@ loopentry 1
            broadcast use axiom_trace_empty, axiom_bytes_of, lemma_push_concat;
//@ global
impl<'a> vstd::std_specs::convert::FromSpecImpl<&'a AspaAction> for Action {
    open spec fn obeys_from_spec() -> bool { true }
    // an ASPA announce or update is an announcement, a withdraw a withdrawal
    closed spec fn from_spec(v: &'a AspaAction) -> Action {
        match *v { AspaAction::Withdraw(_) => Action::Withdraw, _ => Action::Announce }
    }
}

spec fn aspa_action(a: &AspaAction) -> Action {
    <Action as vstd::std_specs::convert::FromSpec<&AspaAction>>::from_spec(a)
}

// ---- the items of a change set as one flat list: origins, then router keys, then ASPAs ----
spec fn flat_len(d: &PayloadDelta) -> int {
    (d.origins.items@.len() + d.router_keys.items@.len() + d.aspas.items@.len()) as int
}

spec fn flat_at<'a>(d: &'a PayloadDelta, i: int) -> (PayloadRef<'a>, Action) {
    let no = d.origins.items@.len() as int;
    let nk = d.router_keys.items@.len() as int;
    if i < no { (PayloadRef::Origin(d.origins.items@[i].0), d.origins.items@[i].1) }
    else if i < no + nk { (PayloadRef::RouterKey(&d.router_keys.items@[i - no].0), d.router_keys.items@[i - no].1) }
    else { (PayloadRef::Aspa(&d.aspas.items@[i - no - nk].0), aspa_action(&d.aspas.items@[i - no - nk].1)) }
}

impl DeltaArcIter {
    // the number of items already yielded
    spec fn pos(&self) -> int {
        match self.current_type {
            PayloadType::Origin => self.next as int,
            PayloadType::RouterKey => self.delta.origins.items@.len() + self.next,
            PayloadType::Aspa => self.delta.origins.items@.len() + self.delta.router_keys.items@.len() + self.next,
        }
    }

    spec fn wf(&self) -> bool {
        match self.current_type {
            PayloadType::Origin => self.next <= self.delta.origins.items@.len(),
            PayloadType::RouterKey => self.next <= self.delta.router_keys.items@.len(),
            PayloadType::Aspa => self.next <= self.delta.aspas.items@.len(),
        }
    }
}

// ---- the items of a data set as one flat list: origins, then router keys, then ASPAs ----
spec fn snap_len(d: &PayloadSnapshot) -> int {
    (d.origins.vec@.len() + d.router_keys.vec@.len() + d.aspas.vec@.len()) as int
}

spec fn snap_at<'a>(d: &'a PayloadSnapshot, i: int) -> PayloadRef<'a> {
    let no = d.origins.vec@.len() as int;
    let nk = d.router_keys.vec@.len() as int;
    if i < no { PayloadRef::Origin(d.origins.vec@[i].0) }
    else if i < no + nk { PayloadRef::RouterKey(&d.router_keys.vec@[i - no].0) }
    else { PayloadRef::Aspa(&d.aspas.vec@[i - no - nk].0) }
}

impl SnapshotArcIter {
    // the number of items already yielded
    spec fn pos(&self) -> int {
        match self.current_type {
            PayloadType::Origin => self.next as int,
            PayloadType::RouterKey => self.snapshot.origins.vec@.len() + self.next,
            PayloadType::Aspa => self.snapshot.origins.vec@.len() + self.snapshot.router_keys.vec@.len() + self.next,
        }
    }

    spec fn wf(&self) -> bool {
        match self.current_type {
            PayloadType::Origin => self.next <= self.snapshot.origins.vec@.len(),
            PayloadType::RouterKey => self.next <= self.snapshot.router_keys.vec@.len(),
            PayloadType::Aspa => self.next <= self.snapshot.aspas.vec@.len(),
        }
    }
}

// ---- C18: the token stream of a /json-delta delta response ----

// the item tokens for the flat items from index `from` on that carry action `act`;
// `first` says whether the next one is the first of its list (no leading comma)
spec fn rest_items<'a>(d: &'a PayloadDelta, from: int, act: Action, first: bool) -> Seq<Tok<'a>>
    decreases flat_len(d) - from
{
    if from < 0 || from >= flat_len(d) { Seq::empty() }
    else if flat_at(d, from).1 == act {
        seq![Tok::Item(flat_at(d, from).0, first)] + rest_items(d, from + 1, act, false)
    }
    else { rest_items(d, from + 1, act, first) }
}

// the complete document: header, announced items, separator, withdrawn items, footer
spec fn delta_document<'a>(d: &'a PayloadDelta, session: u64, from_serial: Serial, to_serial: Serial) -> Seq<Tok<'a>> {
    seq![Tok::Header(session, Some(from_serial), to_serial)] + rest_items(d, 0, Action::Announce, true) + seq![Tok::Sep]
        + rest_items(d, 0, Action::Withdraw, true) + seq![Tok::Footer]
}

impl DeltaStream {
    // the change set being streamed (while the withdraw iterator exists)
    spec fn dl(&self) -> &PayloadDelta { &*self.withdraw->Some_0.delta }

    // state invariant, relative to the change set d being streamed
    spec fn wf(&self, d: &PayloadDelta) -> bool {
        &&& self.header matches Some(h) ==> trace::<'_>(h@).len() == 1 && self.announce is Some && self.first
                && self.announce->Some_0.pos() == 0
        &&& self.announce matches Some(a) ==> *a.delta == *d && a.wf() && self.withdraw is Some
                && self.withdraw->Some_0.pos() == 0 && (a.pos() == 0 ==> self.first)
        &&& self.withdraw matches Some(w) ==> *w.delta == *d && w.wf()
    }

    // the tokens this stream has still to produce
    spec fn rest<'a>(&self, d: &'a PayloadDelta) -> Seq<Tok<'a>> {
        (match self.header { Some(h) => trace(h@), None => Seq::empty() })
        + match self.announce {
            Some(a) => rest_items(d, a.pos(), Action::Announce, self.first) + seq![Tok::Sep]
                        + rest_items(d, 0, Action::Withdraw, true) + seq![Tok::Footer],
            None => match self.withdraw {
                Some(w) => rest_items(d, w.pos(), Action::Withdraw, self.first) + seq![Tok::Footer],
                None => Seq::empty(),
            }
        }
    }

    // termination measure: number of leaf appends still to come, plus pending skips
    spec fn measure(&self, d: &PayloadDelta) -> int {
        (if self.header is Some { 1int } else { 0 })
        + (match self.announce { Some(a) => flat_len(d) - a.pos() + 1, None => 0 })
        + (match self.withdraw { Some(w) => flat_len(d) - w.pos() + 1, None => 0 })
    }
}

broadcast proof fn lemma_push_concat<A>(s: Seq<A>, t: A, r: Seq<A>)
    ensures #[trigger] (s.push(t) + r) == s + (seq![t] + r)
{
    assert((s.push(t) + r) =~= s + (seq![t] + r));
}

// ---- C18: the token stream of a /json-delta reset (snapshot) response ----

// the item tokens for the flat items of the data set from index `from` on
spec fn snap_rest<'a>(d: &'a PayloadSnapshot, from: int, first: bool) -> Seq<Tok<'a>>
    decreases snap_len(d) - from
{
    if from < 0 || from >= snap_len(d) { Seq::empty() }
    else { seq![Tok::Item(snap_at(d, from), first)] + snap_rest(d, from + 1, false) }
}

// the complete document: header, every item of the data set, footer
spec fn snapshot_document<'a>(d: &'a PayloadSnapshot, session: u64, to_serial: Serial) -> Seq<Tok<'a>> {
    seq![Tok::Header(session, None, to_serial)] + snap_rest(d, 0, true) + seq![Tok::Footer]
}

impl SnapshotStream {
    // the data set being streamed (while the iterator exists)
    spec fn sn(&self) -> &PayloadSnapshot { &*self.iter->Some_0.snapshot }

    spec fn wf(&self, d: &PayloadSnapshot) -> bool {
        &&& self.iter matches Some(it) ==> *it.snapshot == *d && it.wf()
        &&& self.header matches Some(h) ==> trace::<'_>(h@).len() == 1 && h@.len() <= 64000
                && self.iter is Some && self.iter->Some_0.pos() == 0
        // after the first chunk at least one item is out (the header alone never fills a chunk)
        &&& self.header is None && self.iter is Some ==> self.iter->Some_0.pos() >= 1
    }

    // the tokens this stream has still to produce
    spec fn rest<'a>(&self, d: &'a PayloadSnapshot) -> Seq<Tok<'a>> {
        match self.iter {
            Some(it) =>
                (match self.header { Some(h) => trace(h@), None => Seq::empty() })
                + snap_rest(d, it.pos(), self.header is Some) + seq![Tok::Footer],
            None => Seq::empty(),
        }
    }

    spec fn measure(&self, d: &PayloadSnapshot) -> int {
        match self.iter { Some(it) => snap_len(d) - it.pos() + 1, None => 0 }
    }
}
