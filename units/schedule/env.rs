// Environment of unit `schedule` (C34). Everything here is ASSUMED.
//
// Time model: every clock/time type is a mathematical integer number of
// nanoseconds on one time line (no overflow, no leap seconds). The std /
// chrono / rpki time types are declared here as transparent wrappers around
// a ghost integer so that `+`, `<`, `max` have exact integer meaning.

#[derive(Clone, Copy)] pub struct Duration { pub ns: Ghost<nat> }            // std::time::Duration
#[derive(Clone, Copy)] pub struct SystemTime { pub t: Ghost<int> }           // std::time::SystemTime
#[derive(Clone, Copy)] pub struct Utc { pub _z: Ghost<int> }                 // chrono::Utc
#[derive(Clone, Copy)] #[verifier::reject_recursive_types(T)]
pub struct DateTime<T> { pub t: Ghost<int>, pub _tz: Ghost<T> }              // chrono::DateTime
#[derive(Clone, Copy)] pub struct ChronoDuration { pub ns: Ghost<int> }      // chrono::Duration (TimeDelta)
#[derive(Clone, Copy)] pub struct Time { pub t: Ghost<int> }                 // rpki::repository::x509::Time
#[verifier::external_body] pub struct SystemTimeError { _opaque: () }
#[verifier::external_body] pub struct OutOfRangeError { _opaque: () }

pub open spec fn NS() -> int { 1_000_000_000 }

// ---- ghost clocks: a value returned by a clock call is recorded as a ghost fact
pub uninterp spec fn sys_clock_read(t: int) -> bool;
pub uninterp spec fn utc_clock_read(t: int) -> bool;

// ---- Duration: total order on the integer value
impl PartialEqSpecImpl for Duration {
    open spec fn obeys_eq_spec() -> bool { true }
    open spec fn eq_spec(&self, other: &Duration) -> bool { self.ns@ == other.ns@ }
}
impl PartialEq for Duration { #[verifier::external_body] fn eq(&self, other: &Self) -> bool { unimplemented!() } }
impl Eq for Duration {}
impl PartialOrdSpecImpl for Duration {
    open spec fn obeys_partial_cmp_spec() -> bool { true }
    open spec fn partial_cmp_spec(&self, other: &Duration) -> Option<Ordering> {
        if self.ns@ < other.ns@ { Some(Ordering::Less) } else if self.ns@ == other.ns@ { Some(Ordering::Equal) } else { Some(Ordering::Greater) }
    }
}
impl PartialOrd for Duration { #[verifier::external_body] fn partial_cmp(&self, other: &Self) -> Option<Ordering> { unimplemented!() } }
impl OrdSpecImpl for Duration {
    open spec fn obeys_cmp_spec() -> bool { true }
    open spec fn cmp_spec(&self, other: &Duration) -> Ordering {
        if self.ns@ < other.ns@ { Ordering::Less } else if self.ns@ == other.ns@ { Ordering::Equal } else { Ordering::Greater }
    }
}
impl Ord for Duration { #[verifier::external_body] fn cmp(&self, other: &Self) -> Ordering { unimplemented!() } }
impl Duration {
    #[verifier::external_body]
    pub fn from_secs(s: u64) -> (r: Duration) ensures r.ns@ == s * NS() { unimplemented!() }
}
impl vstd::std_specs::ops::AddSpecImpl<Duration> for Duration {
    open spec fn obeys_add_spec() -> bool { true }
    open spec fn add_req(self, rhs: Duration) -> bool { true }
    open spec fn add_spec(self, rhs: Duration) -> Duration { Duration { ns: Ghost(self.ns@ + rhs.ns@) } }
}
impl core::ops::Add<Duration> for Duration {
    type Output = Duration;
    #[verifier::external_body] fn add(self, rhs: Duration) -> (r: Duration) { unimplemented!() }
}

// ---- SystemTime
impl SystemTime {
    #[verifier::external_body]
    pub fn now() -> (r: SystemTime) ensures sys_clock_read(r.t@) { unimplemented!() }

    #[verifier::external_body]
    pub fn duration_since(&self, earlier: SystemTime) -> (r: Result<Duration, SystemTimeError>)
        ensures
            self.t@ >= earlier.t@ ==> (r matches Ok(d) && d.ns@ == self.t@ - earlier.t@),
            self.t@ < earlier.t@ ==> r is Err,
    { unimplemented!() }
}
impl vstd::std_specs::ops::AddSpecImpl<Duration> for SystemTime {
    open spec fn obeys_add_spec() -> bool { true }
    open spec fn add_req(self, rhs: Duration) -> bool { true }
    open spec fn add_spec(self, rhs: Duration) -> SystemTime { SystemTime { t: Ghost(self.t@ + rhs.ns@) } }
}
impl core::ops::Add<Duration> for SystemTime {
    type Output = SystemTime;
    #[verifier::external_body] fn add(self, rhs: Duration) -> (r: SystemTime) { unimplemented!() }
}
impl PartialEqSpecImpl for SystemTime {
    open spec fn obeys_eq_spec() -> bool { true }
    open spec fn eq_spec(&self, other: &SystemTime) -> bool { self.t@ == other.t@ }
}
impl PartialEq for SystemTime { #[verifier::external_body] fn eq(&self, other: &Self) -> bool { unimplemented!() } }
impl PartialOrdSpecImpl for SystemTime {
    open spec fn obeys_partial_cmp_spec() -> bool { true }
    open spec fn partial_cmp_spec(&self, other: &SystemTime) -> Option<Ordering> {
        if self.t@ < other.t@ { Some(Ordering::Less) } else if self.t@ == other.t@ { Some(Ordering::Equal) } else { Some(Ordering::Greater) }
    }
}
impl PartialOrd for SystemTime { #[verifier::external_body] fn partial_cmp(&self, other: &Self) -> Option<Ordering> { unimplemented!() } }
// SystemTime::from(rpki Time): same instant
impl vstd::std_specs::convert::FromSpecImpl<Time> for SystemTime {
    open spec fn obeys_from_spec() -> bool { true }
    open spec fn from_spec(v: Time) -> SystemTime { SystemTime { t: Ghost(v.t@) } }
}
impl From<Time> for SystemTime { #[verifier::external_body] fn from(value: Time) -> SystemTime { unimplemented!() } }

// ---- chrono
impl Utc {
    #[verifier::external_body]
    pub fn now() -> (r: DateTime<Utc>) ensures utc_clock_read(r.t@) { unimplemented!() }
}
impl DateTime<Utc> {
    pub open spec fn secs(&self) -> int { self.t@ / NS() }

    #[verifier::external_body]
    pub fn signed_duration_since(self, rhs: DateTime<Utc>) -> (r: ChronoDuration)
        ensures r.ns@ == self.t@ - rhs.t@
    { unimplemented!() }

    // whole seconds since the epoch (floor); the value is assumed to fit (chrono's range)
    #[verifier::external_body]
    pub fn timestamp(&self) -> (r: i64) ensures r as int == self.secs() { unimplemented!() }
}
impl ChronoDuration {
    #[verifier::external_body]
    pub fn to_std(&self) -> (r: Result<Duration, OutOfRangeError>)
        ensures
            self.ns@ >= 0 ==> (r matches Ok(d) && d.ns@ == self.ns@),
            self.ns@ < 0 ==> r is Err,
    { unimplemented!() }

    #[verifier::external_body]
    pub fn try_seconds(s: i64) -> (r: Option<ChronoDuration>)
        ensures s == 1 ==> (r matches Some(d) && d.ns@ == NS()),
    { unimplemented!() }
}
impl vstd::std_specs::ops::AddSpecImpl<ChronoDuration> for DateTime<Utc> {
    open spec fn obeys_add_spec() -> bool { true }
    open spec fn add_req(self, rhs: ChronoDuration) -> bool { true }
    open spec fn add_spec(self, rhs: ChronoDuration) -> DateTime<Utc> { DateTime { t: Ghost(self.t@ + rhs.ns@), _tz: self._tz } }
}
impl core::ops::Add<ChronoDuration> for DateTime<Utc> {
    type Output = DateTime<Utc>;
    #[verifier::external_body] fn add(self, rhs: ChronoDuration) -> (r: DateTime<Utc>) { unimplemented!() }
}

// ---- opaque payload types (fields of PayloadHistory)
#[verifier::external_body] pub struct PayloadSnapshot { _opaque: () }
#[verifier::external_body] pub struct PayloadDelta { _opaque: () }
#[verifier::external_body] pub struct Metrics { _opaque: () }
#[verifier::external_body] pub struct FilterPolicy { _opaque: () }
#[verifier::external_body] pub struct Timing { _opaque: () }

impl PayloadSnapshot {
    // the earliest expiry ("refresh") time of the data set, if it has one
    pub uninterp spec fn refresh_spec(&self) -> Option<Time>;
    #[verifier::external_body]
    pub fn refresh(&self) -> (r: Option<Time>) ensures r == self.refresh_spec() { unimplemented!() }
}

// ---- the lock (SharedHistory wraps Arc<RwLock<PayloadHistory>>).
// (Not `pub`: they mention the extracted, private PayloadHistory.)
// `write()` is the RwLock write acquisition: the guard starts from an
// arbitrary content `initial()`; assignments through the guard change
// `view()` only.
#[verifier::external_body] struct SharedHistory { _opaque: () }
#[verifier::external_body] struct WriteGuard<'a> { _p: &'a SharedHistory }
impl<'a> WriteGuard<'a> {
    pub uninterp spec fn view(&self) -> PayloadHistory;
    pub uninterp spec fn initial(&self) -> PayloadHistory;
}
impl<'a> Deref for WriteGuard<'a> {
    type Target = PayloadHistory;
    #[verifier::external_body]
    fn deref(&self) -> (r: &PayloadHistory) ensures *r == self.view() { unimplemented!() }
}
impl<'a> DerefMut for WriteGuard<'a> {
    #[verifier::external_body]
    fn deref_mut(&mut self) -> (r: &mut PayloadHistory)
        ensures *r == old(self).view(), *final(r) == final(self).view(),
                final(self).initial() == old(self).initial(),
    { unimplemented!() }
}
impl SharedHistory {
    #[verifier::external_body]
    fn write(&self) -> (g: WriteGuard<'_>) ensures g.view() == g.initial() { unimplemented!() }
}

// ---- std functions without a vstd specification
pub assume_specification<T: Ord + core::marker::Destruct> [std::cmp::max] (a: T, b: T) -> (r: T)
    ensures T::obeys_cmp_spec() ==> r == (if a.cmp_spec(&b) == Ordering::Greater { a } else { b }),
;
pub assume_specification<T, E, F> [std::result::Result::<T, E>::unwrap_or_else] (r: std::result::Result<T, E>, f: F) -> (res: T)
    where F: std::ops::FnOnce(E,) -> T + std::marker::Destruct,
    requires r is Err ==> f.requires((r->Err_0,)),
    ensures
        r matches Ok(v) ==> res == v,
        r matches Err(e) ==> f.ensures((e,), res),
;
pub assume_specification<T, E> [std::result::Result::<T, E>::unwrap_or] (r: std::result::Result<T, E>, default: T) -> (res: T)
    where E: std::marker::Destruct, T: std::marker::Destruct,
    ensures
        r matches Ok(v) ==> res == v,
        r is Err ==> res == default,
;
pub assume_specification<T: Ord + core::marker::Destruct> [std::cmp::min] (a: T, b: T) -> (r: T)
    ensures T::obeys_cmp_spec() ==> r == (if a.cmp_spec(&b) == Ordering::Greater { b } else { a }),
;

// ---- further std API of the same types (declared so that equivalent rewrites of the code stay decidable)
impl Default for Duration {
    #[verifier::external_body] fn default() -> (r: Duration) ensures r.ns@ == 0 { unimplemented!() }
}
impl Duration {
    #[verifier::external_body]
    pub fn as_secs(&self) -> (r: u64) ensures r as int == (self.ns@ as int) / NS() { unimplemented!() }
    #[verifier::external_body]
    pub fn from_millis(ms: u64) -> (r: Duration) ensures r.ns@ == ms * 1_000_000 { unimplemented!() }
    #[verifier::external_body]
    pub fn saturating_sub(self, rhs: Duration) -> (r: Duration)
        ensures r.ns@ == (if self.ns@ >= rhs.ns@ { self.ns@ - rhs.ns@ } else { 0 }) { unimplemented!() }
}
impl SystemTime {
    #[verifier::external_body]
    pub fn elapsed(&self) -> (r: Result<Duration, SystemTimeError>)
        ensures exists|t: int| sys_clock_read(t)
            && (t >= self.t@ ==> (r matches Ok(d) && d.ns@ == t - self.t@)) && (t < self.t@ ==> r is Err),
    { unimplemented!() }
}
pub assume_specification<T: core::default::Default, E> [core::result::Result::<T, E>::unwrap_or_default] (r: Result<T, E>) -> (res: T)
    ensures
        r matches Ok(v) ==> res == v,
        r is Err ==> call_ensures(T::default, (), res),
;
