//@ fn SharedHistory::mark_update_done
//@ closure unwrap_or_else 1 optional
|_e: OutOfRangeError| -> (r: Duration) ensures r.ns@ == 0
//@ closure and_then 1 optional
|c: &Arc<PayloadSnapshot>| -> (r: Option<Time>) ensures r == c.refresh_spec()
//@ exit
        proof {
            let o = locked.initial();
            let n = locked.view();
            // C34: the next run is scheduled `refresh` after the clock value read in this
            // section, brought forward to the data set's expiry time if that is earlier
            assert(exists|t1: int| sys_clock_read(t1)
                && n.next_update_start.t@ == sched(t1, n.refresh.ns@, expiry(n)));
            // C34 frame: the configuration and the data set are not touched
            assert(n.refresh == o.refresh && n.min_refresh == o.min_refresh && n.current == o.current);
        }
//@ fn PayloadHistory::refresh_wait
//@ spec
    ensures
        // C34: wait = time left until the scheduled start, but at least min-refresh (refresh when unset)
        exists|t2: int| sys_clock_read(t2)
            && res.ns@ == wait_of(self.next_update_start.t@, t2, self.refresh.ns@, min_refresh_of(self)),
//@ closure unwrap_or_else 1 optional
|_e: SystemTimeError| -> (r: Duration) ensures r.ns@ == 0
//@ fn PayloadHistory::update_wait
//@ spec
    ensures
        exists|t2: int| sys_clock_read(t2) && res.ns@ == ({
            let start = self.next_update_start.t@ + (match self.last_update_duration {
                Some(d) => d.ns@ + d.ns@, None => self.refresh.ns@ });
            if start >= t2 { start - t2 } else { self.refresh.ns@ as int }
        }),
//@ global
spec fn imax(a: int, b: int) -> int { if a > b { a } else { b } }
spec fn clip0(a: int) -> int { if a > 0 { a } else { 0 } }

spec fn expiry(h: PayloadHistory) -> Option<int> {
    match h.current {
        Some(c) => match c.refresh_spec() { Some(t) => Some(t.t@), None => None },
        None => None,
    }
}
spec fn min_refresh_of(h: &PayloadHistory) -> Option<nat> {
    match h.min_refresh { Some(d) => Some(d.ns@), None => None }
}

// scheduled start of the next run, computed at clock value t1
spec fn sched(t1: int, refresh: nat, expiry: Option<int>) -> int {
    match expiry {
        Some(e) => if e < t1 + refresh { e } else { t1 + refresh },
        None => t1 + refresh,
    }
}
// the wait returned at clock value t2
spec fn wait_of(next: int, t2: int, refresh: nat, min_refresh: Option<nat>) -> int {
    imax(clip0(next - t2), match min_refresh { Some(m) => m as int, None => refresh as int })
}

// C34, written from the property statement: for a schedule made at t1 and a
// wait computed at t2 >= t1
proof fn lemma_c34_schedule(t1: int, t2: int, refresh: nat, min_refresh: Option<nat>, exp: Option<int>)
    requires t1 <= t2,
    ensures ({
        let wait = wait_of(sched(t1, refresh, exp), t2, refresh, min_refresh);
        // never shorter than min-refresh (refresh when unset), never longer than the larger of the two
        &&& min_refresh is None ==> wait == refresh
        &&& min_refresh matches Some(m) ==> m <= wait && wait <= imax(m as int, refresh as int)
        // min-refresh set: an earlier expiry brings the run forward to the expiry, not below min-refresh
        &&& (min_refresh is Some && exp is Some && exp->Some_0 < t1 + refresh)
                ==> wait == imax(min_refresh->Some_0 as int, exp->Some_0 - t2)
        &&& (min_refresh is Some && !(exp is Some && exp->Some_0 < t1 + refresh))
                ==> wait == imax(min_refresh->Some_0 as int, t1 + refresh - t2)
    }),
{
}
