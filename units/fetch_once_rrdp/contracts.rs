//@ fn Collector::config
//@ spec
    ensures res == &self.config,
//@ fn LoadResult::read
//@ spec
    ensures final(clk).now == old(clk).now, final(clk).held == old(clk).held,
//@ fn Run::load_repository
//@ spec
    requires wf(self),
    ensures
        // C37: whoever asked for the repository gets a result only after it was recorded as updated
        res is Ok ==> in_updated(run_of(&self.updated), *rpki_notify),
        final(clk).now >= old(clk).now,
//@ closure then 1 optional
|| -> (r: FmtArgs)
//@ global
// The two locks belong to this run, and the collector's ghost back-pointer names it.
spec fn wf(run: &Run) -> bool {
    &&& run_of(&run.updated) == run_of(&run.running)
    &&& run.collector.run_spec() == run_of(&run.updated)
}
