// Environment of unit `fetch_once_rrdp` (C37, gate part of C31): opaque types, ASSUMED
// contracts, and the lock protocol as monotone ghost facts (see units/fetch_once_rsync/env.rs
// for the reading of the facts; here the key is the rpkiNotify URI).

#[verifier::external_body] pub struct PathBuf { _opaque: () }
#[verifier::external_body] pub struct HttpClient { _opaque: () }
#[verifier::external_body] pub struct RunFailed { _opaque: () }
#[verifier::external_body] pub struct LogBookWriter { _opaque: () }
#[verifier::external_body] pub struct LogBook { _opaque: () }
#[verifier::external_body] pub struct FmtArgs { _opaque: () }
#[verifier::external_body] pub struct Duration { _opaque: () }
#[verifier::external_body] pub struct SystemTimeError { _opaque: () }
#[derive(Clone, Copy)]
pub struct StatusCode(pub u16);
#[verifier::external_body] pub struct Uuid { _opaque: () }
#[verifier::external_body] pub struct ReadRepository { _opaque: () }
#[verifier::external_body] pub struct Repository { _opaque: () }
#[derive(Clone, Copy)]
#[verifier::external_body] pub struct FallbackTime { _opaque: () }
#[verifier::external_body] #[verifier::reject_recursive_types(T)] pub struct RwLock<T> { _t: T }
#[verifier::external_body] #[verifier::reject_recursive_types(T)] pub struct Mutex<T> { _t: T }
#[verifier::external_body] #[verifier::reject_recursive_types(T)] pub struct RwLockReadGuard<'a, T> { _t: &'a T }
#[verifier::external_body] #[verifier::reject_recursive_types(T)] pub struct RwLockWriteGuard<'a, T> { _t: &'a T }
#[verifier::external_body] #[verifier::reject_recursive_types(T)] pub struct MutexGuard<'a, T> { _t: &'a T }

#[verifier::external_body] pub fn fmt_opaque() -> FmtArgs { unimplemented!() }

#[verifier::external_body] pub struct Https { _opaque: () }
impl Clone for Https {
    #[verifier::external_body]
    fn clone(&self) -> (r: Self) ensures r == *self { unimplemented!() }
}
impl Https {
    pub uninterp spec fn dubious_spec(&self) -> bool;
    // utils::uri::UriExt::has_dubious_authority (classifier: Kani part of C31)
    #[verifier::external_body]
    pub fn has_dubious_authority(&self) -> (r: bool) ensures r == self.dubious_spec() { unimplemented!() }
}

pub uninterp spec fn run_of<T>(l: &RwLock<T>) -> int;
pub uninterp spec fn in_updated(run: int, uri: Https) -> bool;
pub uninterp spec fn seen_absent(run: int, uri: Https) -> bool;
pub uninterp spec fn mutex_of(run: int, uri: Https, mx: &Mutex<()>) -> bool;
pub uninterp spec fn lock_acquired<T>(mx: &Mutex<T>) -> bool;
pub open spec fn locked(mx: &Mutex<()>) -> bool { lock_acquired(mx) }
pub uninterp spec fn fetched(run: int, uri: Https) -> bool;

impl LogBookWriter {
    #[verifier::external_body] pub fn new(process_prefix: Option<FmtArgs>) -> LogBookWriter { unimplemented!() }
    #[verifier::external_body] pub fn warn(&mut self, args: FmtArgs) { unimplemented!() }
    #[verifier::external_body] pub fn into_book(self) -> LogBook { unimplemented!() }
}
impl LogBook {
    #[verifier::external_body] pub fn is_empty(&self) -> bool { unimplemented!() }
}
impl Repository {
    #[verifier::external_body] fn read(&self) -> Result<Arc<ReadRepository>, RunFailed> { unimplemented!() }
}
impl RrdpRepositoryMetrics {
    #[verifier::external_body] fn new(notify_uri: Https) -> RrdpRepositoryMetrics { unimplemented!() }
}

// ---- the fetch: RepositoryUpdate::try_update contacts the RRDP server (unit rrdp_update, C25)
#[verifier::external_body] pub struct RepositoryUpdate<'a> { _p: &'a () }
impl<'a> RepositoryUpdate<'a> {
    uninterp spec fn collector_spec(&self) -> &Collector;
    pub uninterp spec fn uri_spec(&self) -> Https;
    // creating the update object computes a path; no request is made
    #[verifier::external_body]
    fn new(collector: &'a Collector, rpki_notify: &'a Https, log: &'a mut LogBookWriter) -> (r: Result<RepositoryUpdate<'a>, RunFailed>)
        ensures r matches Ok(u) ==> u.collector_spec() == collector && u.uri_spec() == *rpki_notify,
    { unimplemented!() }
    #[verifier::external_body]
    fn try_update(self) -> (r: Result<(LoadResult<Repository>, RrdpRepositoryMetrics), RunFailed>)
        requires
            // C31 (gate): no RRDP request for a dubious host while filtering is on
            !(self.collector_spec().config.filter_dubious && self.uri_spec().dubious_spec()),
            // C37 (G4): fetch only with the lock of a mutex taken from running[uri], having seen the URI absent from `updated`
            exists|mx: &Mutex<()>| #[trigger] mutex_of(self.collector_spec().run_spec(), self.uri_spec(), mx) && locked(mx),
            seen_absent(self.collector_spec().run_spec(), self.uri_spec()),
        ensures fetched(self.collector_spec().run_spec(), self.uri_spec()),
    { unimplemented!() }
}
impl Collector {
    // ghost back-pointer: the run that uses this collector
    uninterp spec fn run_spec(&self) -> int;
}

// ---- locks
impl<T> RwLock<T> {
    #[verifier::external_body]
    pub fn read(&self) -> (g: RwLockReadGuard<'_, T>) ensures g.run() == run_of(self) { unimplemented!() }
    #[verifier::external_body]
    pub fn write(&self) -> (g: RwLockWriteGuard<'_, T>) ensures g.run() == run_of(self) { unimplemented!() }
}
impl<'a, T> RwLockReadGuard<'a, T> { pub uninterp spec fn run(&self) -> int; }
impl<'a, T> RwLockWriteGuard<'a, T> { pub uninterp spec fn run(&self) -> int; }
impl<T> Mutex<T> {
    #[verifier::external_body]
    pub fn lock(&self) -> (g: MutexGuard<'_, T>) ensures lock_acquired(self) { unimplemented!() }
}

// `updated`: rpkiNotify URI -> result of the update
impl<'a> RwLockReadGuard<'a, HashMap<Https, LoadResult<Repository>>> {
    #[verifier::external_body]
    fn get(&self, uri: &Https) -> (r: Option<&LoadResult<Repository>>)
        ensures r is Some ==> in_updated(self.run(), *uri), r is None ==> seen_absent(self.run(), *uri),
    { unimplemented!() }
}
impl<'a> RwLockWriteGuard<'a, HashMap<Https, LoadResult<Repository>>> {
    #[verifier::external_body]
    fn insert(&mut self, uri: Https, repo: LoadResult<Repository>) -> (r: Option<LoadResult<Repository>>)
        requires
            // C37 (G3): a repository is recorded as updated only by the thread holding its mutex
            exists|mx: &Mutex<()>| #[trigger] mutex_of(old(self).run(), uri, mx) && locked(mx),
        ensures in_updated(old(self).run(), uri), final(self).run() == old(self).run(),
    { unimplemented!() }
}
// `running`: rpkiNotify URI -> mutex
#[verifier::external_body] pub struct RunningEntry<'a> { _p: &'a () }
impl<'a> RunningEntry<'a> {
    pub uninterp spec fn run(&self) -> int;
    pub uninterp spec fn key(&self) -> Https;
    #[verifier::external_body]
    pub fn or_default(self) -> (r: &'a mut Arc<Mutex<()>>)
        ensures mutex_of(self.run(), self.key(), &**r),
    { unimplemented!() }
}
impl<'a> RwLockWriteGuard<'a, HashMap<Https, Arc<Mutex<()>>>> {
    #[verifier::external_body]
    pub fn entry(&mut self, key: Https) -> (r: RunningEntry<'_>)
        ensures r.run() == old(self).run(), r.key() == key, final(self).run() == old(self).run(),
    { unimplemented!() }
    #[verifier::external_body]
    pub fn remove(&mut self, uri: &Https) -> (r: Option<Arc<Mutex<()>>>)
        requires
            // C37 (G2): the in-progress marker of a repository is removed only once it is in `updated`
            in_updated(old(self).run(), *uri),
        ensures final(self).run() == old(self).run(),
    { unimplemented!() }
}
impl<'a> MutexGuard<'a, Vec<RrdpRepositoryMetrics>> {
    #[verifier::external_body]
    fn push(&mut self, m: RrdpRepositoryMetrics) { unimplemented!() }
}
