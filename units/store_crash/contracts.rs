//@ fn StoredPointHeader::new
//@ spec
    ensures
        res.manifest_uri == manifest_uri, res.rpki_notify == rpki_notify,
        res.update_status is LastAttempt,
//@ fn StoredPoint::create
//@ spec
    ensures
        // C23: creating the file can only fail for a genuine I/O failure
        !io_failure() ==> res is Ok,
        res matches Ok(p) ==> fresh_point(p, path, *manifest_uri, rpki_notify),
//@ entry
    proof { lemma_point_states(); }
//@ fn StoredPoint::reject
//@ spec
    ensures
        !io_failure() ==> res is Ok,
        final(self).manifest is None, final(self).file is None,
        final(self).header.update_status is LastAttempt,
        final(self).path == old(self).path,
//@ entry
    proof { lemma_point_states(); }
//@ fn StoredPoint::is_new
//@ spec
    ensures res == self.is_new,
//@ fn StoredPoint::manifest
//@ spec
    ensures match res { Some(m) => self.manifest == Some(*m), None => self.manifest is None },
//@ fn StoredPoint::load_quietly
//@ spec
    ensures
        // C23: the quiet loader (used by cleanup) never invents data: a manifest is reported
        // only for a completely stored point, and it is that point's manifest
        res matches Some(p) ==> forall|h: StoredPointHeader, m: StoredManifest, objs: Seq<StoredObject>|
            disk(path.p) == Some(#[trigger] enc_point(h, m, objs)) && h.update_status is Success ==>
                same_stored_header(p.header, h) && (p.manifest matches Some(pm) && enc_manifest(pm) == enc_manifest(m)),
        res matches Some(p) ==> (!is_complete(disk(path.p)) ==> p.manifest is None && p.header.update_status is LastAttempt),
//@ entry
    proof { lemma_point_states(); axiom_codec(); lemma_open(); }
//@ fn StoredPoint::open
//@ spec
    ensures
        // C23: whatever state a kill left the point file in, the next run can open the point
        !io_failure() ==> res is Ok,
        // C23: a completely stored version is seen as exactly that version (same bytes: times at
        // the stored one-second resolution), positioned at its objects
        res matches Ok(p) ==> forall|h: StoredPointHeader, m: StoredManifest, objs: Seq<StoredObject>|
            disk(path.p) == Some(#[trigger] enc_point(h, m, objs)) && h.update_status is Success ==>
                same_stored_header(p.header, h) && !p.is_new
                && (p.manifest matches Some(pm) && enc_manifest(pm) == enc_manifest(m))
                && (p.file matches Some(f) && f.remaining() == enc_objects(objs)),
        // C23: anything else (no file, an empty or partially written never-succeeded header) is
        // seen as a point without stored data
        res matches Ok(p) ==> (!is_complete(disk(path.p)) ==>
                p.manifest is None && p.file is None && p.header.update_status is LastAttempt),
        res matches Ok(p) ==> p.path == path,
//@ entry
    proof { lemma_point_states(); axiom_codec(); lemma_open(); }
//@ closure map_err 1 optional
|err: IoError| -> (r: Failed)
//@ global
// ---- encodings (abstract) and the assumed codec facts -----------------------------------------
uninterp spec fn enc_header(h: StoredPointHeader) -> Seq<u8>;
uninterp spec fn enc_manifest(m: StoredManifest) -> Seq<u8>;
uninterp spec fn enc_object(o: StoredObject) -> Seq<u8>;
spec fn enc_objects(objs: Seq<StoredObject>) -> Seq<u8>
    decreases objs.len()
{
    if objs.len() == 0 { Seq::empty() } else { enc_objects(objs.drop_last()) + enc_object(objs.last()) }
}
spec fn enc_point(h: StoredPointHeader, m: StoredManifest, objs: Seq<StoredObject>) -> Seq<u8> {
    enc_header(h) + enc_manifest(m) + enc_objects(objs)
}
// Header and manifest encodings are self-delimiting (length-prefixed fields) and not empty.
// They do NOT determine the value completely: times are stored at one-second resolution while
// Time (Time::now()) has sub-second precision. Two headers with the same bytes agree on the
// URIs and on the kind of update status (proved in unit store_header: lemma_header_codec).
spec fn same_stored_header(a: StoredPointHeader, b: StoredPointHeader) -> bool {
    &&& enc_header(a) == enc_header(b)
    &&& a.manifest_uri == b.manifest_uri
    &&& a.rpki_notify == b.rpki_notify
    &&& (a.update_status is Success <==> b.update_status is Success)
}
#[verifier::external_body]
proof fn axiom_codec()
    ensures
        forall|a: StoredPointHeader, x: Seq<u8>, b: StoredPointHeader, y: Seq<u8>|
            #[trigger] (enc_header(a) + x) == #[trigger] (enc_header(b) + y) ==> same_stored_header(a, b) && x == y,
        forall|a: StoredManifest, x: Seq<u8>, b: StoredManifest, y: Seq<u8>|
            #[trigger] (enc_manifest(a) + x) == #[trigger] (enc_manifest(b) + y) ==> enc_manifest(a) == enc_manifest(b) && x == y,
        forall|h: StoredPointHeader| (#[trigger] enc_header(h)).len() > 0,
{ unimplemented!() }

// ---- C23: the states a kill can leave a stored point file in ------------------------------------
spec fn is_complete(d: Option<Seq<u8>>) -> bool {
    exists|h: StoredPointHeader, m: StoredManifest, objs: Seq<StoredObject>|
        d == Some(#[trigger] enc_point(h, m, objs)) && h.update_status is Success
}
spec fn point_state(b: Seq<u8>) -> bool {
    // (i) just created or truncated
    ||| b.len() == 0
    // (ii) any prefix (including all) of the header of a point that never succeeded
    ||| exists|h: StoredPointHeader, n: int| h.update_status is LastAttempt && 0 <= n <= enc_header(h).len()
            && b == #[trigger] enc_header(h).subrange(0, n)
    // (iii) a complete successfully updated point (only ever put in place by the atomic persist)
    ||| is_complete(Some(b))
}
proof fn lemma_point_states()
    ensures
        point_state(Seq::<u8>::empty()),
        forall|h: StoredPointHeader, n: int| h.update_status is LastAttempt && 0 <= n <= enc_header(h).len() ==>
            point_state(Seq::<u8>::empty() + #[trigger] enc_header(h).subrange(0, n)),
{
    assert forall|h: StoredPointHeader, n: int| h.update_status is LastAttempt && 0 <= n <= enc_header(h).len() implies
            point_state(Seq::<u8>::empty() + #[trigger] enc_header(h).subrange(0, n)) by {
        assert(Seq::<u8>::empty() + enc_header(h).subrange(0, n) =~= enc_header(h).subrange(0, n));
    }
}

// A point as `create` returns it.
spec fn fresh_point(p: StoredPoint, path: PathBuf, manifest_uri: UriRsync, rpki_notify: Option<&UriHttps>) -> bool {
    &&& p.path == path && p.is_new && p.manifest is None && p.file is None
    &&& p.header.update_status is LastAttempt
    &&& p.header.manifest_uri == manifest_uri
    &&& (match rpki_notify { Some(u) => p.header.rpki_notify == Some(*u), None => p.header.rpki_notify is None })
}

// ---- assumed contracts of operations on the extracted types ----------------------------------------
impl IoWrite for File {
    open spec fn written(&self) -> Seq<u8> { self.content() }
    closed spec fn state_ok(&self, bytes: Seq<u8>) -> bool { point_state(bytes) }
}
impl File {
    // Opening for reading: by the file-system invariant the file is in a state a kill can leave.
    #[verifier::external_body]
    fn open(path: &PathBuf) -> (r: Result<File, IoError>)
        ensures
            r matches Ok(f) ==> disk(path.p) == Some(f.content()) && point_state(f.content()),
            r matches Err(e) ==> (e.kind_spec() == ErrorKind::NotFound ==> disk(path.p) is None),
            r matches Err(e) ==> (e.kind_spec() != ErrorKind::NotFound ==> io_failure()),
    { unimplemented!() }
    #[verifier::external_body]
    fn sync_all(&self) -> (r: Result<(), IoError>) { unimplemented!() }
    #[verifier::external_body]
    fn metadata(&self) -> (r: Result<Metadata, IoError>)
        ensures r matches Ok(m) ==> m.len_spec() == self.content().len(),
    { unimplemented!() }
    #[verifier::external_body]
    fn set_len(&mut self, size: u64) -> (r: Result<(), IoError>)
        requires forall|n: int| 0 <= n <= old(self).content().len() ==> point_state(#[trigger] old(self).content().subrange(0, n)),
    { unimplemented!() }
    // Create-or-truncate: ONE CRASH STEP, after which the file is empty.
    #[verifier::external_body]
    fn create(path: &PathBuf) -> (r: Result<File, IoError>)
        requires point_state(Seq::<u8>::empty()),
        ensures
            r matches Ok(f) ==> f.content() == Seq::<u8>::empty(),
            r is Err ==> io_failure(),
    { unimplemented!() }
    // Create, failing if the path exists (O_EXCL): ONE CRASH STEP. It is NOT an I/O failure when
    // it refuses an existing file - and the file does exist whenever open found one (a short or
    // foreign header is exactly the case in which open falls back to create).
    #[verifier::external_body]
    fn create_new(path: &PathBuf) -> (r: Result<File, IoError>)
        requires point_state(Seq::<u8>::empty()),
        ensures
            r matches Ok(f) ==> f.content() == Seq::<u8>::empty() && disk(path.p) is None,
            r matches Err(e) ==> io_failure() || (e.kind_spec() == ErrorKind::AlreadyExists && disk(path.p) is Some),
            disk(path.p) is Some ==> r is Err,
    { unimplemented!() }
}
// utils::fatal wrappers of the same constructors (errors are logged and become Failed).
#[verifier::external_body]
fn fatal_create_file(path: &Path) -> (r: Result<File, Failed>)
    requires point_state(Seq::<u8>::empty()),
    ensures
        r matches Ok(f) ==> f.content() == Seq::<u8>::empty(),
        r is Err ==> io_failure(),
{ unimplemented!() }
#[verifier::external_body]
fn fatal_open_existing_file(path: &Path) -> (r: Result<Option<File>, Failed>)
    ensures
        r matches Ok(Some(f)) ==> disk(*path) == Some(f.content()) && point_state(f.content()),
        r matches Ok(None) ==> disk(*path) is None,
        r is Err ==> io_failure(),
{ unimplemented!() }
// fatal::open_file: a missing file is an error here, and not an I/O failure
#[verifier::external_body]
fn fatal_open_file(path: &Path) -> (r: Result<File, Failed>)
    ensures
        r matches Ok(f) ==> disk(*path) == Some(f.content()) && point_state(f.content()),
        r is Err ==> io_failure() || disk(*path) is None,
{ unimplemented!() }

impl StoredPointHeader {
    // Writing a header = a sequence of write_all calls: ONE CRASH STEP GROUP. A kill during it
    // leaves the old bytes plus any prefix of the header: every such state must be acceptable.
    #[verifier::external_body]
    fn write<W: IoWrite>(&self, writer: &mut W) -> (r: Result<(), IoError>)
        requires
            forall|n: int| 0 <= n <= enc_header(*self).len() ==>
                old(writer).state_ok(old(writer).written() + #[trigger] enc_header(*self).subrange(0, n)),
        ensures
            appended(old(writer).written(), final(writer).written(), enc_header(*self), r is Ok),
            r is Err ==> io_failure(),
    { unimplemented!() }
    // Reading: consumes exactly one header encoding; an error is fatal only on a genuine I/O
    // failure; a non-fatal error (EOF, bad format) means no complete header is there.
    #[verifier::external_body]
    fn read<R: IoRead>(reader: &mut R) -> (r: Result<StoredPointHeader, ParseError>)
        ensures
            r matches Ok(h) ==> old(reader).remaining() == enc_header(h) + final(reader).remaining(),
            r matches Err(e) ==> (e.is_fatal_spec() ==> io_failure()),
            r matches Err(e) ==> (!e.is_fatal_spec() ==>
                !exists|h: StoredPointHeader, rest: Seq<u8>| old(reader).remaining() == #[trigger] (enc_header(h) + rest)),
    { unimplemented!() }
}
impl StoredManifest {
    #[verifier::external_body]
    fn read<R: IoRead>(reader: &mut R) -> (r: Result<StoredManifest, ParseError>)
        ensures
            r matches Ok(m) ==> old(reader).remaining() == enc_manifest(m) + final(reader).remaining(),
            r matches Err(e) ==> (e.is_fatal_spec() ==> io_failure()),
            r matches Err(e) ==> (!e.is_fatal_spec() ==>
                !exists|m: StoredManifest, rest: Seq<u8>| old(reader).remaining() == #[trigger] (enc_manifest(m) + rest)),
    { unimplemented!() }
}

// Consequences of the codec facts used by `open`.
proof fn lemma_open()
    ensures
        forall|s: Seq<u8>| #[trigger] s.skip(0) == s,
        // a complete point starts with its header, followed by manifest and objects
        forall|h: StoredPointHeader, m: StoredManifest, objs: Seq<StoredObject>|
            #[trigger] enc_point(h, m, objs) == enc_header(h) + (enc_manifest(m) + enc_objects(objs)),
        // reading a header off a complete point yields that header and leaves manifest + objects
        forall|h: StoredPointHeader, m: StoredManifest, objs: Seq<StoredObject>, h1: StoredPointHeader, r: Seq<u8>|
            #[trigger] enc_point(h, m, objs) == #[trigger] (enc_header(h1) + r)
                ==> same_stored_header(h, h1) && r == enc_manifest(m) + enc_objects(objs),
        // a prefix of a header that starts with a complete header is that header
        forall|h: StoredPointHeader, n: int, h1: StoredPointHeader, r: Seq<u8>|
            0 <= n <= enc_header(h).len() && #[trigger] enc_header(h).subrange(0, n) == #[trigger] (enc_header(h1) + r)
                ==> same_stored_header(h, h1),
        // nothing that starts with a complete header is empty
        forall|h1: StoredPointHeader, r: Seq<u8>| (#[trigger] (enc_header(h1) + r)).len() > 0,
{
    axiom_codec();
    assert forall|s: Seq<u8>| #[trigger] s.skip(0) == s by { assert(s.skip(0) =~= s); }
    assert forall|h: StoredPointHeader, m: StoredManifest, objs: Seq<StoredObject>|
            #[trigger] enc_point(h, m, objs) == enc_header(h) + (enc_manifest(m) + enc_objects(objs)) by {
        assert(enc_point(h, m, objs) =~= enc_header(h) + (enc_manifest(m) + enc_objects(objs)));
    }
    assert forall|h: StoredPointHeader, m: StoredManifest, objs: Seq<StoredObject>, h1: StoredPointHeader, r: Seq<u8>|
            #[trigger] enc_point(h, m, objs) == #[trigger] (enc_header(h1) + r)
                implies same_stored_header(h, h1) && r == enc_manifest(m) + enc_objects(objs) by {
        assert(enc_point(h, m, objs) == enc_header(h) + (enc_manifest(m) + enc_objects(objs)));
    }
    assert forall|h: StoredPointHeader, n: int, h1: StoredPointHeader, r: Seq<u8>|
            0 <= n <= enc_header(h).len() && #[trigger] enc_header(h).subrange(0, n) == #[trigger] (enc_header(h1) + r)
                implies same_stored_header(h, h1) by {
        let suffix = enc_header(h).subrange(n, enc_header(h).len() as int);
        assert(enc_header(h) + Seq::<u8>::empty() =~= enc_header(h1) + (r + suffix)) by {
            assert(enc_header(h) =~= enc_header(h).subrange(0, n) + suffix);
            assert((enc_header(h1) + r) + suffix =~= enc_header(h1) + (r + suffix));
            assert(enc_header(h) + Seq::<u8>::empty() =~= enc_header(h));
        }
    }
}
