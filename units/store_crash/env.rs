// Environment of unit `store_crash` (C23, stored point files). Everything here is ASSUMED.

// A genuine I/O failure (EIO, ENOSPC, permissions, ...) happened; unrelated to crashes.
pub uninterp spec fn io_failure() -> bool;

// ---- data -------------------------------------------------------------------------
#[verifier::external_body] #[derive(Clone, Copy)] pub struct Time { _opaque: () }
impl Time {
    #[verifier::external_body]
    pub fn now() -> (r: Time) { unimplemented!() }
}
#[verifier::external_body] pub struct UriRsync { _opaque: () }
impl Clone for UriRsync {
    #[verifier::external_body]
    fn clone(&self) -> (r: Self) ensures r == *self { unimplemented!() }
}
#[verifier::external_body] pub struct UriHttps { _opaque: () }
impl Clone for UriHttps {
    #[verifier::external_body]
    fn clone(&self) -> (r: Self) ensures r == *self { unimplemented!() }
}
#[verifier::external_body] pub struct Serial { _opaque: () }
#[verifier::external_body] pub struct Bytes { _opaque: () }
#[verifier::external_body] pub struct ManifestHash { _opaque: () }

#[derive(Structural, PartialEq, Eq)]
pub enum ErrorKind { NotFound, UnexpectedEof, Other }
#[verifier::external_body] pub struct IoError { _opaque: () }
impl IoError {
    pub uninterp spec fn kind_spec(&self) -> ErrorKind;
    #[verifier::external_body]
    pub fn kind(&self) -> (r: ErrorKind) ensures r == self.kind_spec() { unimplemented!() }
}
// utils::binio::ParseError
#[verifier::external_body] pub struct ParseError { _opaque: () }
impl ParseError {
    pub uninterp spec fn is_fatal_spec(&self) -> bool;
    #[verifier::external_body]
    pub fn is_fatal(&self) -> (r: bool) ensures r == self.is_fatal_spec() { unimplemented!() }
}

// ---- paths ---------------------------------------------------------------------------
#[verifier::external_body] pub struct Path { _opaque: () }
pub struct PathBuf { pub p: Path }
impl PathBuf {
    #[verifier::external_body]
    pub fn parent(&self) -> (r: Option<&Path>) { unimplemented!() }
}
#[verifier::external_body]
pub fn fatal_create_dir_all(path: &Path) -> (r: Result<(), Failed>)
    ensures r is Err ==> io_failure(),
{ unimplemented!() }

// ---- readers and writers; crash steps -----------------------------------------------------
pub trait IoRead { spec fn remaining(&self) -> Seq<u8>; }
pub trait IoWrite {
    // everything written through this handle so far (for a file: its bytes)
    spec fn written(&self) -> Seq<u8>;
    // C23: `bytes` is a state the underlying file may be left in by a crash
    spec fn state_ok(&self, bytes: Seq<u8>) -> bool;
}
// A write either appends all the data or fails having appended some prefix of it.
pub open spec fn appended(old_w: Seq<u8>, new_w: Seq<u8>, data: Seq<u8>, ok: bool) -> bool {
    if ok { new_w == old_w + data }
    else { exists|n: int| 0 <= n <= data.len() && new_w == old_w + #[trigger] data.subrange(0, n) }
}

// What is on disk at a point's path when StoredPoint::open looks (None: no file).
pub uninterp spec fn disk(p: Path) -> Option<Seq<u8>>;

// std::fs::File on a stored point file
#[verifier::external_body] pub struct File { _opaque: () }
impl File {
    pub uninterp spec fn content(&self) -> Seq<u8>;
    #[verifier::external_body]
    pub fn seek(&mut self, to: SeekFrom) -> (r: Result<u64, IoError>)
        ensures final(self).content() == old(self).content(), r is Err ==> io_failure(),
    { unimplemented!() }
}
pub enum SeekFrom { Start(u64), End(i64), Current(i64) }

#[verifier::external_body] #[verifier::reject_recursive_types(T)] pub struct BufReader<T> { _t: T }
impl BufReader<File> {
    pub uninterp spec fn inner(&self) -> File;
    pub uninterp spec fn pos(&self) -> int;
    #[verifier::external_body]
    pub fn new(file: File) -> (r: BufReader<File>)
        ensures r.inner() == file, r.pos() == 0,
    { unimplemented!() }
}
impl IoRead for BufReader<File> {
    open spec fn remaining(&self) -> Seq<u8> { self.inner().content().skip(self.pos()) }
}
pub assume_specification<T: core::marker::Destruct> [std::mem::drop] (_0: T);
