// Environment of unit `store_crash` (C23, stored point files). Everything here is ASSUMED.

// A genuine I/O failure (EIO, ENOSPC, permissions, ...) happened; unrelated to crashes.
pub uninterp spec fn io_failure() -> bool;

// ---- data -------------------------------------------------------------------------
#[verifier::external_body] #[derive(Clone, Copy)] pub struct Time { _opaque: () }
impl Time {
    #[verifier::external_body]
    pub fn now() -> (r: Time) { unimplemented!() }
}
#[verifier::external_body] pub struct UriRsync { _opaque: () }
impl Clone for UriRsync {
    #[verifier::external_body]
    fn clone(&self) -> (r: Self) ensures r == *self { unimplemented!() }
}
#[verifier::external_body] pub struct UriHttps { _opaque: () }
impl Clone for UriHttps {
    #[verifier::external_body]
    fn clone(&self) -> (r: Self) ensures r == *self { unimplemented!() }
}
#[verifier::external_body] pub struct Serial { _opaque: () }
#[verifier::external_body] pub struct Bytes { _opaque: () }
#[verifier::external_body] pub struct ManifestHash { _opaque: () }

#[derive(Structural, PartialEq, Eq)]
pub enum ErrorKind { NotFound, AlreadyExists, PermissionDenied, UnexpectedEof, Interrupted, Other }
#[verifier::external_body] pub struct IoError { _opaque: () }
impl IoError {
    pub uninterp spec fn kind_spec(&self) -> ErrorKind;
    #[verifier::external_body]
    pub fn kind(&self) -> (r: ErrorKind) ensures r == self.kind_spec() { unimplemented!() }
}
// utils::binio::ParseError
#[verifier::external_body] pub struct ParseError { _opaque: () }
impl ParseError {
    pub uninterp spec fn is_fatal_spec(&self) -> bool;
    #[verifier::external_body]
    pub fn is_fatal(&self) -> (r: bool) ensures r == self.is_fatal_spec() { unimplemented!() }
    // an unexpected EOF is never fatal
    #[verifier::external_body]
    pub fn is_eof(&self) -> (r: bool) ensures r ==> !self.is_fatal_spec() { unimplemented!() }
    // bad formatting: never fatal
    #[verifier::external_body]
    pub fn format<T>(err: T) -> (r: ParseError) ensures !r.is_fatal_spec() { unimplemented!() }
}

// ---- paths ---------------------------------------------------------------------------
#[verifier::external_body] pub struct Path { _opaque: () }
pub struct PathBuf { pub p: Path }
impl PathBuf {
    #[verifier::external_body]
    pub fn parent(&self) -> (r: Option<&Path>) { unimplemented!() }
    #[verifier::external_body]
    pub fn join(&self, name: &str) -> (r: PathBuf) { unimplemented!() }
    #[verifier::external_body]
    pub fn as_path(&self) -> (r: &Path) ensures *r == self.p { unimplemented!() }
}
impl std::ops::Deref for PathBuf {
    type Target = Path;
    #[verifier::external_body]
    fn deref(&self) -> (r: &Path) ensures *r == self.p { unimplemented!() }
}
impl Clone for PathBuf {
    #[verifier::external_body]
    fn clone(&self) -> (r: PathBuf) ensures r == *self { unimplemented!() }
}
impl Path {
    #[verifier::external_body]
    pub fn exists(&self) -> (r: bool) { unimplemented!() }
    #[verifier::external_body]
    pub fn parent(&self) -> (r: Option<&Path>) { unimplemented!() }
    #[verifier::external_body]
    pub fn to_path_buf(&self) -> (r: PathBuf) ensures r.p == *self { unimplemented!() }
}
// Path-level primitives that would change a stored point file outside the step discipline of
// File::create / header write / persist. Their permission cannot be established in this unit,
// so a use of them in the functions under contract is reported.
pub uninterp spec fn may_replace(target: Path) -> bool;
#[verifier::external_body]
pub fn fs_rename(from: &Path, to: &Path) -> (r: Result<(), IoError>) requires may_replace(*to) { unimplemented!() }
#[verifier::external_body]
pub fn fatal_rename(from: &Path, to: &Path) -> (r: Result<(), Failed>) requires may_replace(*to) { unimplemented!() }
#[verifier::external_body]
pub fn fs_copy(from: &Path, to: &Path) -> (r: Result<u64, IoError>) requires may_replace(*to) { unimplemented!() }
#[verifier::external_body]
pub fn fs_write(path: &Path, contents: &[u8]) -> (r: Result<(), IoError>) requires may_replace(*path) { unimplemented!() }
#[verifier::external_body]
pub fn fatal_write_file(path: &Path, contents: &[u8]) -> (r: Result<(), Failed>) requires may_replace(*path) { unimplemented!() }
// Removing a point file leaves "no file", which open reads as a new point: allowed.
#[verifier::external_body]
pub fn fs_remove_file(path: &Path) -> (r: Result<(), IoError>) { unimplemented!() }
#[verifier::external_body]
pub fn fatal_remove_file(path: &Path) -> (r: Result<(), Failed>) { unimplemented!() }
#[verifier::external_body]
pub fn fatal_create_dir_all(path: &Path) -> (r: Result<(), Failed>)
    ensures r is Err ==> io_failure(),
{ unimplemented!() }

// ---- readers and writers; crash steps -----------------------------------------------------
pub trait IoRead { spec fn remaining(&self) -> Seq<u8>; }
pub trait IoWrite {
    // everything written through this handle so far (for a file: its bytes)
    spec fn written(&self) -> Seq<u8>;
    // C23: `bytes` is a state the underlying file may be left in by a crash
    spec fn state_ok(&self, bytes: Seq<u8>) -> bool;
}
// A write either appends all the data or fails having appended some prefix of it.
pub open spec fn appended(old_w: Seq<u8>, new_w: Seq<u8>, data: Seq<u8>, ok: bool) -> bool {
    if ok { new_w == old_w + data }
    else { exists|n: int| 0 <= n <= data.len() && new_w == old_w + #[trigger] data.subrange(0, n) }
}

// What is on disk at a point's path when StoredPoint::open looks (None: no file).
pub uninterp spec fn disk(p: Path) -> Option<Seq<u8>>;

// std::fs::File on a stored point file
#[verifier::external_body] pub struct File { _opaque: () }
impl File {
    pub uninterp spec fn content(&self) -> Seq<u8>;
    // The step model treats writes as appends: repositioning is only admitted on an empty
    // (just created) file; overwriting a non-empty file in place is reported.
    #[verifier::external_body]
    pub fn seek(&mut self, to: SeekFrom) -> (r: Result<u64, IoError>)
        requires old(self).content().len() == 0,
        ensures final(self).content() == old(self).content(), r is Err ==> io_failure(),
    { unimplemented!() }
}
pub enum SeekFrom { Start(u64), End(i64), Current(i64) }

#[verifier::external_body] #[verifier::reject_recursive_types(T)] pub struct BufReader<T> { _t: T }
impl BufReader<File> {
    pub uninterp spec fn inner(&self) -> File;
    pub uninterp spec fn pos(&self) -> int;
    #[verifier::external_body]
    pub fn new(file: File) -> (r: BufReader<File>)
        ensures r.inner() == file, r.pos() == 0,
    { unimplemented!() }
}
impl BufReader<File> {
    #[verifier::external_body]
    pub fn get_ref(&self) -> (r: &File) ensures *r == self.inner() { unimplemented!() }
    #[verifier::external_body]
    pub fn into_inner(self) -> (r: File) ensures r == self.inner() { unimplemented!() }
    #[verifier::external_body]
    pub fn seek(&mut self, to: SeekFrom) -> (r: Result<u64, IoError>)
        ensures final(self).inner() == old(self).inner(),
                r is Ok ==> (to matches SeekFrom::Start(n) ==> final(self).pos() == n as int),
    { unimplemented!() }
}
impl IoRead for BufReader<File> {
    open spec fn remaining(&self) -> Seq<u8> { self.inner().content().skip(self.pos()) }
}
pub assume_specification<T: core::marker::Destruct> [std::mem::drop] (_0: T);
// ---- std functions without a vstd specification (ASSUMED: their std definitions).
// Declared so that a refactoring that starts using one of them is verified, not rejected.
pub assume_specification<T: Ord + core::marker::Destruct> [std::cmp::min] (a: T, b: T) -> (r: T)
    ensures <T as vstd::std_specs::cmp::OrdSpec>::obeys_cmp_spec() ==> r == (if vstd::std_specs::cmp::OrdSpec::cmp_spec(&b, &a) == std::cmp::Ordering::Less { b } else { a }),
;
pub assume_specification<T: Ord + core::marker::Destruct> [std::cmp::max] (a: T, b: T) -> (r: T)
    ensures <T as vstd::std_specs::cmp::OrdSpec>::obeys_cmp_spec() ==> r == (if vstd::std_specs::cmp::OrdSpec::cmp_spec(&b, &a) == std::cmp::Ordering::Less { a } else { b }),
;
pub assume_specification [std::cmp::Ordering::is_lt] (o: std::cmp::Ordering) -> (r: bool)
    ensures r == (o == std::cmp::Ordering::Less);
pub assume_specification [std::cmp::Ordering::is_gt] (o: std::cmp::Ordering) -> (r: bool)
    ensures r == (o == std::cmp::Ordering::Greater);
pub assume_specification [std::cmp::Ordering::is_le] (o: std::cmp::Ordering) -> (r: bool)
    ensures r == (o != std::cmp::Ordering::Greater);
pub assume_specification [std::cmp::Ordering::is_ge] (o: std::cmp::Ordering) -> (r: bool)
    ensures r == (o != std::cmp::Ordering::Less);
pub assume_specification<T: core::marker::Destruct> [bool::then_some] (b: bool, t: T) -> (r: Option<T>)
    ensures r == (if b { Some(t) } else { None::<T> });
pub assume_specification<T: core::marker::Destruct> [std::option::Option::<T>::xor] (a: Option<T>, b: Option<T>) -> (r: Option<T>)
    ensures r == (match (a, b) { (Some(x), None) => Some(x), (None, Some(y)) => Some(y), _ => None::<T> });
pub assume_specification<'a, T: Copy> [std::option::Option::<&T>::copied] (o: Option<&'a T>) -> (r: Option<T>)
    ensures r == (match o { Some(x) => Some(*x), None => None::<T> });
pub assume_specification<T: core::marker::Destruct> [std::option::Option::<T>::or] (a: Option<T>, b: Option<T>) -> (r: Option<T>)
    ensures r == (if a is Some { a } else { b });
pub assume_specification<T: core::marker::Destruct, U: core::marker::Destruct> [std::option::Option::<T>::and] (a: Option<T>, b: Option<U>) -> (r: Option<U>)
    ensures r == (if a is Some { b } else { None::<U> });
pub assume_specification<T: core::marker::Destruct, U: core::marker::Destruct> [std::option::Option::<T>::zip] (a: Option<T>, b: Option<U>) -> (r: Option<(T, U)>)
    ensures r == (match (a, b) { (Some(x), Some(y)) => Some((x, y)), _ => None::<(T, U)> });
pub assume_specification<T, F: FnOnce(T) -> bool + core::marker::Destruct> [std::option::Option::<T>::is_some_and] (o: Option<T>, f: F) -> (r: bool)
    requires o matches Some(x) ==> f.requires((x,)),
    ensures match o { Some(x) => f.ensures((x,), r), None => !r };
pub assume_specification<T, F: FnOnce(T) -> bool + core::marker::Destruct> [std::option::Option::<T>::is_none_or] (o: Option<T>, f: F) -> (r: bool)
    requires o matches Some(x) ==> f.requires((x,)),
    ensures match o { Some(x) => f.ensures((x,), r), None => r };
pub assume_specification<T: core::marker::Destruct, P: FnOnce(&T) -> bool + core::marker::Destruct> [std::option::Option::<T>::filter] (o: Option<T>, p: P) -> (r: Option<T>)
    requires o matches Some(x) ==> p.requires((&x,)),
    ensures match o { Some(x) => (r == Some(x) && p.ensures((&x,), true)) || (r is None && p.ensures((&x,), false)), None => r is None },
        // the predicate returned SOME boolean for the element, and the result follows it
        o is Some ==> exists|__b: bool| p.ensures((&o->Some_0,), __b) && r == (if __b { o } else { None::<T> });
pub assume_specification<T: core::marker::Destruct, F: FnOnce() -> Option<T> + core::marker::Destruct> [std::option::Option::<T>::or_else] (o: Option<T>, f: F) -> (r: Option<T>)
    requires o is None ==> f.requires(()),
    ensures match o { Some(x) => r == o, None => f.ensures((), r) };
pub assume_specification<T, U: core::marker::Destruct, F: FnOnce(T) -> U + core::marker::Destruct> [std::option::Option::<T>::map_or] (o: Option<T>, d: U, f: F) -> (r: U)
    requires o matches Some(x) ==> f.requires((x,)),
    ensures match o { Some(x) => f.ensures((x,), r), None => r == d };
pub assume_specification<T, U, D: FnOnce() -> U + core::marker::Destruct, F: FnOnce(T) -> U + core::marker::Destruct> [std::option::Option::<T>::map_or_else] (o: Option<T>, d: D, f: F) -> (r: U)
    requires o matches Some(x) ==> f.requires((x,)), o is None ==> d.requires(()),
    ensures match o { Some(x) => f.ensures((x,), r), None => d.ensures((), r) };
pub assume_specification<T: core::marker::Destruct, E: core::marker::Destruct> [std::result::Result::<T, E>::unwrap_or] (x: Result<T, E>, d: T) -> (r: T)
    ensures r == (match x { Ok(v) => v, Err(_) => d });
pub assume_specification<T, E: core::marker::Destruct, F: core::marker::Destruct> [std::result::Result::<T, E>::or] (a: Result<T, E>, b: Result<T, F>) -> (r: Result<T, F>)
    ensures match a { Ok(v) => r == Ok::<T, F>(v), Err(_) => r == b };
pub assume_specification<T, E, U, F: FnOnce(T) -> Result<U, E> + core::marker::Destruct> [std::result::Result::<T, E>::and_then] (x: Result<T, E>, f: F) -> (r: Result<U, E>)
    requires x matches Ok(v) ==> f.requires((v,)),
    ensures match x { Ok(v) => f.ensures((v,), r), Err(e) => r == Err::<U, E>(e) };
pub assume_specification<T, E: core::marker::Destruct, F: FnOnce(T) -> bool + core::marker::Destruct> [std::result::Result::<T, E>::is_ok_and] (x: Result<T, E>, f: F) -> (r: bool)
    requires x matches Ok(v) ==> f.requires((v,)),
    ensures match x { Ok(v) => f.ensures((v,), r), Err(_) => !r };
pub assume_specification<T, E, F: FnOnce(E) -> T + core::marker::Destruct> [std::result::Result::<T, E>::unwrap_or_else] (x: Result<T, E>, f: F) -> (r: T)
    requires x matches Err(e) ==> f.requires((e,)),
    ensures match x { Ok(v) => r == v, Err(e) => f.ensures((e,), r) };
pub assume_specification<T> [std::mem::replace] (dest: &mut T, src: T) -> (r: T)
    ensures r == *old(dest), *final(dest) == src;
pub assume_specification<T: Default + core::marker::Destruct, E: core::marker::Destruct> [std::result::Result::<T, E>::unwrap_or_default] (x: Result<T, E>) -> (r: T)
    ensures x matches Ok(v) ==> r == v;
pub assume_specification<T, E, U: core::marker::Destruct, F: FnOnce(T) -> U + core::marker::Destruct> [std::result::Result::<T, E>::map_or] (x: Result<T, E>, d: U, f: F) -> (r: U)
    requires x matches Ok(v) ==> f.requires((v,)),
    ensures match x { Ok(v) => f.ensures((v,), r), Err(_) => r == d };
pub assume_specification [<std::cmp::Ordering as PartialEq>::eq] (a: &std::cmp::Ordering, b: &std::cmp::Ordering) -> (r: bool)
    ensures r == (*a == *b);
// std::fs::Metadata of a stored point file
#[verifier::external_body] pub struct Metadata { _opaque: () }
impl Metadata {
    pub uninterp spec fn len_spec(&self) -> nat;
    #[verifier::external_body]
    pub fn len(&self) -> (r: u64) ensures r as nat == self.len_spec() { unimplemented!() }
    #[verifier::external_body]
    pub fn is_file(&self) -> (r: bool) { unimplemented!() }
}
