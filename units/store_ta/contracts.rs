//@ fn Run::update_ta
//@ spec
    requires
        // ghost naming: the content this call is asked to store
        content@ == intended(self.store.ta_path_spec(*uri)),
    ensures
        // C10: on Ok the stored copy at ta_path(uri) is exactly `content`, whatever was there before:
        // it has been written now, or the file already held exactly these bytes
        res is Ok ==> written(self.store.ta_path_spec(*uri))
            || disk(self.store.ta_path_spec(*uri)) == Some(content@),
        res is Err ==> io_failure(),
//@ fn Run::load_ta
//@ spec
    ensures
        // C10: what a later run falls back to is exactly the content of the file at ta_path(uri);
        // Ok(None) iff there is no file
        res matches Ok(Some(b)) ==> disk(self.store.ta_path_spec(*uri)) == Some(b.view()),
        // C10 + C33: an I/O error on the stored trust anchor surfaces as Err (which fails the run: unit engine_ta), it is never
        // reported as 'no stored copy' (a masked error would let the run succeed without that TAL's data)
        res matches Ok(None) ==> disk(self.store.ta_path_spec(*uri)) is None,
        res is Err ==> io_failure(),
//@ entry
    proof { axiom_bytes_of(); }
//@ closure map 1 optional
|maybe: Option<Vec<u8>>| -> (r: Option<Bytes>) ensures match maybe { Some(v) => r matches Some(b) && b.view() == v@, None => r is None }
//@ global
uninterp spec fn ta_path_of(base: Path, uri: TalUri) -> Path;
impl Store {
    spec fn ta_path_spec(&self, uri: TalUri) -> Path { ta_path_of(self.path.p, uri) }
    // Store::ta_path: <store>/ta/{rsync,https}/<authority>/<hash>.cer, a function of the URI
    #[verifier::external_body]
    fn ta_path(&self, uri: &TalUri) -> (r: PathBuf) ensures r.p == self.ta_path_spec(*uri) { unimplemented!() }
}
