// Environment of unit `store_ta` (C10: the stored trust-anchor copy). Everything here is ASSUMED.

// A genuine I/O failure (EIO, ENOSPC, permissions, ...).
pub uninterp spec fn io_failure() -> bool;

#[verifier::external_body] #[derive(Clone, Copy)] pub struct Time { _opaque: () }
#[verifier::external_body] pub struct TalUri { _opaque: () }
#[verifier::external_body] pub struct IoError { _opaque: () }
#[verifier::external_body] pub struct Path { _opaque: () }
pub struct PathBuf { pub p: Path }
impl std::ops::Deref for PathBuf {
    type Target = Path;
    #[verifier::external_body]
    fn deref(&self) -> (r: &Path) ensures *r == self.p { unimplemented!() }
}
impl PathBuf {
    #[verifier::external_body]
    pub fn parent(&self) -> (r: Option<&Path>) { unimplemented!() }
    #[verifier::external_body]
    pub fn as_path(&self) -> (r: &Path) ensures *r == self.p { unimplemented!() }
    #[verifier::external_body]
    // std: `false` also when the lookup fails (permission denied, a non-directory path component, ...): only `true` is informative
    pub fn exists(&self) -> (r: bool) ensures r ==> disk(self.p) is Some { unimplemented!() }
    #[verifier::external_body]
    pub fn is_file(&self) -> (r: bool) ensures r ==> disk(self.p) is Some { unimplemented!() }
}
impl Path {
    #[verifier::external_body]
    pub fn parent(&self) -> (r: Option<&Path>) { unimplemented!() }
    #[verifier::external_body]
    // std: `false` also when the lookup fails: only `true` is informative
    pub fn exists(&self) -> (r: bool) ensures r ==> disk(*self) is Some { unimplemented!() }
    #[verifier::external_body]
    pub fn is_file(&self) -> (r: bool) ensures r ==> disk(*self) is Some { unimplemented!() }
}
// bytes::Bytes
#[verifier::external_body] pub struct Bytes { _opaque: () }
impl Bytes {
    pub uninterp spec fn view(&self) -> Seq<u8>;
}
pub uninterp spec fn bytes_of(s: Seq<u8>) -> Bytes;
#[verifier::external_body]
pub proof fn axiom_bytes_of() ensures forall|s: Seq<u8>| (#[trigger] bytes_of(s)).view() == s { unimplemented!() }
impl vstd::std_specs::convert::FromSpecImpl<Vec<u8>> for Bytes {
    open spec fn obeys_from_spec() -> bool { true }
    open spec fn from_spec(v: Vec<u8>) -> Bytes { bytes_of(v@) }
}
impl From<Vec<u8>> for Bytes {
    #[verifier::external_body]
    fn from(value: Vec<u8>) -> Bytes { unimplemented!() }
}

// ---- the ghost file system ---------------------------------------------------------------
// What is at a path when the call looks (None: no file).
pub uninterp spec fn disk(p: Path) -> Option<Seq<u8>>;
// The content the current update is asked to put at p (ghost naming).
pub uninterp spec fn intended(p: Path) -> Seq<u8>;
// A write of intended(p) to p has completed in this call.
pub uninterp spec fn written(p: Path) -> bool;

// std::fs::Metadata
#[verifier::external_body] pub struct Metadata { _opaque: () }
impl Metadata {
    pub uninterp spec fn len_spec(&self) -> nat;
    #[verifier::external_body]
    pub fn len(&self) -> (r: u64) ensures r as nat == self.len_spec() { unimplemented!() }
    #[verifier::external_body]
    pub fn is_file(&self) -> (r: bool) { unimplemented!() }
    #[verifier::external_body]
    pub fn is_dir(&self) -> (r: bool) { unimplemented!() }
}
#[verifier::external_body]
pub fn fs_metadata(path: &Path) -> (r: Result<Metadata, IoError>)
    ensures r matches Ok(m) ==> (disk(*path) matches Some(c) && m.len_spec() == c.len()),
{ unimplemented!() }
#[verifier::external_body]
pub fn fatal_create_dir_all(path: &Path) -> (r: Result<(), Failed>) ensures r is Err ==> io_failure() { unimplemented!() }
// fs::write: replaces whatever is at the path by exactly `contents` (on Ok).
#[verifier::external_body]
pub fn fatal_write_file(path: &Path, contents: &[u8]) -> (r: Result<(), Failed>)
    requires contents@ == intended(*path),
    ensures r is Ok ==> written(*path), r is Err ==> io_failure(),
{ unimplemented!() }
#[verifier::external_body]
pub fn fs_write(path: &Path, contents: &[u8]) -> (r: Result<(), IoError>)
    requires contents@ == intended(*path),
    ensures r is Ok ==> written(*path), r is Err ==> io_failure(),
{ unimplemented!() }
// fs::read with NotFound mapped to None
#[verifier::external_body]
pub fn fatal_read_existing_file(path: &Path) -> (r: Result<Option<Vec<u8>>, Failed>)
    ensures
        r matches Ok(Some(v)) ==> disk(*path) == Some(v@),
        r matches Ok(None) ==> disk(*path) is None,
        r is Err ==> io_failure(),
{ unimplemented!() }
#[verifier::external_body]
pub fn fatal_read_file(path: &Path) -> (r: Result<Vec<u8>, Failed>)
    ensures r matches Ok(v) ==> disk(*path) == Some(v@),
{ unimplemented!() }
#[verifier::external_body]
pub fn fs_read(path: &Path) -> (r: Result<Vec<u8>, IoError>)
    ensures r matches Ok(v) ==> disk(*path) == Some(v@),
{ unimplemented!() }
// removing the stored copy is never what update_ta / load_ta may do
#[verifier::external_body]
pub fn fatal_remove_file(path: &Path) -> (r: Result<(), Failed>)
    requires false,
{ unimplemented!() }
