//@ fn RunFailed::fatal
//@ spec
    ensures res.fatal,
//@ fn RunFailed::retry
//@ spec
    ensures !res.fatal,
//@ fn RunFailed::is_fatal
//@ spec
    ensures res == self.fatal,
//@ fn RunFailed::should_retry
//@ spec
    ensures res == !self.fatal,
//@ fn ValidationReport::process
//@ spec
    ensures
        // C33: a report (the only thing SharedHistory::update accepts) exists exactly
        // when every step of the run succeeded; the store cleanup is only reached after a
        // successful validation walk (`requires validated()` of Run::cleanup in env.rs)
        res is Ok <==> run_ok(),
//@ fn Server::process_once
//@ spec
    ensures
        // C33: the call fails exactly when its validation run failed ...
        res is Ok <==> run_ok(),
        // C33: ... and then no notification was sent (pending notifications unchanged);
        // that update()/mark_update_done()/notify() were not called on that path is the
        // call-permission `requires run_ok()` of those functions in env.rs
        res is Err ==> final(notify).sent() == old(notify).sent(),
        // a successful run marks start, installs the data, marks done, and notifies
        // exactly when update() reported a change -- after the update
        res is Ok ==> start_marked(history) && updated(history) && done_marked(history),
        res is Ok ==> final(notify).sent() == old(notify).sent() + (if update_result(history) { 1nat } else { 0nat }),
