// Environment of unit `process_once` (C33). Everything here is ASSUMED.
//
// `SharedHistory` is shared through `&self`, so Verus cannot see its content
// change. The effects that matter for C33 are therefore modelled as *call
// permissions*: the functions that change what is served (update,
// mark_update_done, NotifySender::notify) may only be called when the
// validation run of this process_once call succeeded (`run_ok()`); calling
// one of them on a failed-run path is a failed precondition. The pending
// notifications are additionally counted on the `&mut NotifySender`.

#[verifier::external_body] pub struct Server { _opaque: () }
#[verifier::external_body] pub struct Config { _opaque: () }
#[verifier::external_body] pub struct Engine { _opaque: () }
#[verifier::external_body] pub struct LocalExceptions { _opaque: () }
#[verifier::external_body] pub struct ValidationReport { _opaque: () }
#[verifier::external_body] pub struct Metrics { _opaque: () }
#[verifier::external_body] pub struct Serial { _opaque: () }
#[verifier::external_body] pub struct Duration { _opaque: () }
#[verifier::external_body] pub struct PayloadHistory { _opaque: () }
#[verifier::external_body] pub struct SharedHistory { _opaque: () }
#[verifier::external_body] pub struct PayloadSnapshot { _opaque: () }
#[verifier::external_body] pub struct NotifySender { _opaque: () }
#[verifier::external_body] pub struct Summary { _opaque: () }
#[verifier::external_body] pub struct LevelFilter { _opaque: () }
pub enum Level { Error, Warn, Info, Debug, Trace }

// ghost: did the validation run performed by this call succeed?  run_ok(), below
// ghost, monotone: facts about what this call already did to the shared history
pub uninterp spec fn start_marked(h: &SharedHistory) -> bool;
pub uninterp spec fn updated(h: &SharedHistory) -> bool;
pub uninterp spec fn update_result(h: &SharedHistory) -> bool;
pub uninterp spec fn done_marked(h: &SharedHistory) -> bool;
// ghost, monotone: the new data set has been installed by update() in this call
pub uninterp spec fn installed() -> bool;

// The run itself (ValidationReport::process is extracted): outcome of each step
// as a ghost constant of this call.
pub uninterp spec fn start_ok() -> bool;
pub uninterp spec fn validate_ok() -> bool;
pub uninterp spec fn cleanup_ok() -> bool;
pub open spec fn run_ok() -> bool { start_ok() && validate_ok() && cleanup_ok() }

#[verifier::external_body] pub struct Failed { _opaque: () }
#[verifier::external_body] pub struct Run<'a> { _p: &'a Engine }
impl vstd::std_specs::convert::FromSpecImpl<Failed> for RunFailed {
    open spec fn obeys_from_spec() -> bool { false }
    uninterp spec fn from_spec(v: Failed) -> RunFailed;
}
impl From<Failed> for RunFailed { #[verifier::external_body] fn from(v: Failed) -> RunFailed { unimplemented!() } }

impl ValidationReport {
    #[verifier::external_body] pub fn new(config: &Config) -> ValidationReport { unimplemented!() }
}
impl Engine {
    #[verifier::external_body]
    pub fn start<'a>(&'a self, processor: &'a ValidationReport, initial: bool) -> (r: Result<Run<'a>, Failed>)
        ensures r is Ok <==> start_ok(), r matches Ok(run) ==> !run.validated(),
    { unimplemented!() }
}
impl<'a> Run<'a> {
    // ghost: the validation walk of this run completed successfully
    pub uninterp spec fn validated(&self) -> bool;

    #[verifier::external_body]
    pub fn process(&mut self) -> (r: Result<(), RunFailed>)
        ensures r is Ok <==> validate_ok(), final(self).validated() == (r is Ok),
    { unimplemented!() }

    // deletes everything the (complete) run did not use: only after a successful walk
    #[verifier::external_body]
    pub fn cleanup(&mut self) -> (r: Result<(), Failed>)
        requires old(self).validated(),
        ensures r is Ok <==> cleanup_ok(), final(self).validated() == old(self).validated(),
    { unimplemented!() }

    #[verifier::external_body] pub fn done(self) -> Metrics { unimplemented!() }
}

impl SharedHistory {
    // touches only last_update_start (frame proved in unit history_locks)
    #[verifier::external_body]
    pub fn mark_update_start(&self)
        ensures start_marked(self),
    { unimplemented!() }

    // installs the new data set; changes data / serial (proved in unit history_locks)
    #[verifier::external_body]
    pub fn update(&self, report: ValidationReport, exceptions: &LocalExceptions, metrics: Metrics) -> (r: bool)
        requires run_ok(), start_marked(self),
        ensures updated(self), r == update_result(self), installed(),
    { unimplemented!() }

    // changes created / last_update_done / next_update_start
    #[verifier::external_body]
    pub fn mark_update_done(&self)
        requires run_ok(), updated(self),
        ensures done_marked(self),
    { unimplemented!() }

    #[verifier::external_body]
    pub fn read(&self) -> (g: &PayloadHistory) { unimplemented!() }
}
// PayloadHistory accessors used through the read guard (guard modelled as a plain reference; contracts:
// none needed here -- what they return is proved in units history / history_locks / schedule)
impl PayloadHistory {
    #[verifier::external_body] pub fn is_active(&self) -> bool { unimplemented!() }
    #[verifier::external_body] pub fn current(&self) -> Option<Arc<PayloadSnapshot>> { unimplemented!() }
    #[verifier::external_body] pub fn refresh_wait(&self) -> Duration { unimplemented!() }
    #[verifier::external_body] pub fn update_wait(&self) -> Duration { unimplemented!() }
    #[verifier::external_body] pub fn serial(&self) -> Serial { unimplemented!() }
    #[verifier::external_body] pub fn session(&self) -> u64 { unimplemented!() }
    #[verifier::external_body] pub fn session_and_serial(&self) -> (u64, Serial) { unimplemented!() }
    #[verifier::external_body] pub fn rtr_session(&self) -> u16 { unimplemented!() }
    #[verifier::external_body] pub fn metrics(&self) -> Option<Arc<Metrics>> { unimplemented!() }
    #[verifier::external_body] pub fn last_update_duration(&self) -> Option<Duration> { unimplemented!() }
}
impl Duration {
    #[verifier::external_body] pub fn as_secs(&self) -> u64 { unimplemented!() }
}
impl NotifySender {
    // number of notifications sent so far
    pub uninterp spec fn sent(&self) -> nat;

    // wakes every subscribed client: only after a successful run whose data was installed
    #[verifier::external_body]
    pub fn notify(&mut self)
        requires run_ok(), installed(),
        ensures final(self).sent() == old(self).sent() + 1,
    { unimplemented!() }
}

impl Summary {
    #[verifier::external_body] pub fn log(metrics: &Metrics) { unimplemented!() }
}

// log::max_level() >= log::Level::Info : logging only, no contract
#[verifier::external_body] pub fn log_max_level() -> LevelFilter { unimplemented!() }
impl PartialEqSpecImpl<Level> for LevelFilter {
    open spec fn obeys_eq_spec() -> bool { false }
    uninterp spec fn eq_spec(&self, other: &Level) -> bool;
}
impl PartialEq<Level> for LevelFilter { #[verifier::external_body] fn eq(&self, other: &Level) -> bool { unimplemented!() } }
impl PartialOrdSpecImpl<Level> for LevelFilter {
    open spec fn obeys_partial_cmp_spec() -> bool { false }
    uninterp spec fn partial_cmp_spec(&self, other: &Level) -> Option<Ordering>;
}
impl PartialOrd<Level> for LevelFilter { #[verifier::external_body] fn partial_cmp(&self, other: &Level) -> Option<Ordering> { unimplemented!() } }
