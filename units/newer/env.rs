// Environment of unit `newer`: opaque rpki / std / crate types and ASSUMED
// contracts of what check_collected_is_newer, StoredPoint::manifest and
// StoredPoint::reject call.

// ---- opaque types that only occur as field / parameter types
#[verifier::external_body] pub struct RsyncUri { _opaque: () }
#[verifier::external_body] pub struct HttpsUri { _opaque: () }
#[verifier::external_body] pub struct TalUri { _opaque: () }
#[verifier::external_body] pub struct Tal { _opaque: () }
#[verifier::external_body] pub struct Cert { _opaque: () }
#[verifier::external_body] pub struct ResourceCert { _opaque: () }
#[verifier::external_body] pub struct Crl { _opaque: () }
#[verifier::external_body] pub struct Validity { _opaque: () }
#[verifier::external_body] pub struct RouteOriginAttestation { _opaque: () }
#[verifier::external_body] pub struct AsProviderAttestation { _opaque: () }
#[verifier::external_body] pub struct Collector { _opaque: () }
#[verifier::external_body] pub struct Store { _opaque: () }
#[verifier::external_body] pub struct Metrics { _opaque: () }
#[verifier::external_body] pub struct CollectorRun<'a> { _p: &'a Collector }
#[verifier::external_body] pub struct StoreRun<'a> { _p: &'a Store }
#[verifier::external_body] pub struct PathBuf { _opaque: () }
#[verifier::external_body] pub struct AtomicBool { _opaque: () }
#[verifier::external_body] pub struct File { _opaque: () }
#[verifier::external_body] #[verifier::reject_recursive_types(T)] pub struct BufReader<T> { _t: T }
#[verifier::external_body] pub struct IoError { _opaque: () }
#[verifier::external_body] pub struct DecodeError { _opaque: () }
#[verifier::external_body] pub struct FmtArgs { _opaque: () }
#[verifier::external_body] pub struct LogBookWriter { _opaque: () }

// ---- bytes::Bytes: content identity only
#[verifier::external_body] pub struct Bytes { _opaque: () }
impl Clone for Bytes {
    #[verifier::external_body]
    fn clone(&self) -> (r: Bytes) ensures r == *self, { unimplemented!() }
}

// ---- rpki::repository::x509::{Serial, Time}: derived Ord over a 20 octet
// big-endian integer / a UTC time stamp. ASSUMED: a total order, represented
// by an injective integer value.
#[derive(Clone, Copy)]
#[verifier::external_body] pub struct Serial { _opaque: () }
#[derive(Clone, Copy)]
#[verifier::external_body] pub struct Time { _opaque: () }

impl Serial { pub uninterp spec fn val(&self) -> int; }
impl Time { pub uninterp spec fn val(&self) -> int; }

pub open spec fn int_cmp(a: int, b: int) -> Ordering {
    if a < b { Ordering::Less } else if a == b { Ordering::Equal } else { Ordering::Greater }
}

pub broadcast axiom fn serial_val_injective(a: Serial, b: Serial)
    ensures #[trigger] a.val() == #[trigger] b.val() ==> a == b;
pub broadcast axiom fn time_val_injective(a: Time, b: Time)
    ensures #[trigger] a.val() == #[trigger] b.val() ==> a == b;

impl PartialEqSpecImpl for Serial {
    open spec fn obeys_eq_spec() -> bool { true }
    open spec fn eq_spec(&self, other: &Serial) -> bool { self.val() == other.val() }
}
impl PartialEq for Serial {
    #[verifier::external_body]
    fn eq(&self, other: &Self) -> bool { unimplemented!() }
}
impl PartialOrdSpecImpl for Serial {
    open spec fn obeys_partial_cmp_spec() -> bool { true }
    open spec fn partial_cmp_spec(&self, other: &Serial) -> Option<Ordering> { Some(int_cmp(self.val(), other.val())) }
}
impl PartialOrd for Serial {
    #[verifier::external_body]
    fn partial_cmp(&self, other: &Serial) -> Option<Ordering> { unimplemented!() }
}
impl PartialEqSpecImpl for Time {
    open spec fn obeys_eq_spec() -> bool { true }
    open spec fn eq_spec(&self, other: &Time) -> bool { self.val() == other.val() }
}
impl PartialEq for Time {
    #[verifier::external_body]
    fn eq(&self, other: &Self) -> bool { unimplemented!() }
}
impl PartialOrdSpecImpl for Time {
    open spec fn obeys_partial_cmp_spec() -> bool { true }
    open spec fn partial_cmp_spec(&self, other: &Time) -> Option<Ordering> { Some(int_cmp(self.val(), other.val())) }
}
impl PartialOrd for Time {
    #[verifier::external_body]
    fn partial_cmp(&self, other: &Time) -> Option<Ordering> { unimplemented!() }
}
impl Time {
    #[verifier::external_body]
    pub fn now() -> (r: Time) { unimplemented!() }
}

// ---- rpki::repository::manifest
#[verifier::external_body] pub struct ManifestContent { _opaque: () }
#[verifier::external_body] pub struct Manifest { _opaque: () }

impl ManifestContent {
    pub uninterp spec fn number_spec(&self) -> Serial;
    pub uninterp spec fn this_update_spec(&self) -> Time;

    #[verifier::external_body]
    pub fn manifest_number(&self) -> (r: Serial) ensures r == self.number_spec(), { unimplemented!() }
    #[verifier::external_body]
    pub fn this_update(&self) -> (r: Time) ensures r == self.this_update_spec(), { unimplemented!() }
}

// What decoding a byte string as a manifest yields: a ghost function of the
// bytes and the strict flag (rpki decides it, this unit does not).
pub uninterp spec fn manifest_decode_spec(bytes: Bytes, strict: bool) -> Result<Manifest, DecodeError>;

impl Manifest {
    pub uninterp spec fn content_spec(&self) -> ManifestContent;

    #[verifier::external_body]
    pub fn decode(source: Bytes, strict: bool) -> (r: Result<Manifest, DecodeError>)
        ensures r == manifest_decode_spec(source, strict),
    { unimplemented!() }

    #[verifier::external_body]
    pub fn content(&self) -> (r: &ManifestContent) ensures *r == self.content_spec(), { unimplemented!() }
}

// ---- log / formatting (R2): content dropped, no effect on verified state
#[verifier::external_body]
pub fn fmt_opaque() -> (r: FmtArgs) { unimplemented!() }

impl LogBookWriter {
    #[verifier::external_body]
    pub fn warn(&mut self, args: FmtArgs) { unimplemented!() }
}

// ---- file system primitives used by StoredPoint::reject (results arbitrary)
impl File {
    #[verifier::external_body]
    pub fn create(path: &PathBuf) -> (r: Result<File, IoError>) { unimplemented!() }
}
impl StoredPointHeader {
    #[verifier::external_body]
    pub fn write(&self, writer: &mut File) -> (r: Result<(), IoError>) { unimplemented!() }
}

// ======== additions for the call site (PubPoint::process_collected) ========
#[verifier::external_body] pub struct RunMetrics { _opaque: () }
#[verifier::external_body] pub struct FileAndHash { _opaque: () }
#[verifier::external_body] pub struct FileListIter { _opaque: () }
#[verifier::external_body] pub struct ThreadRng { _opaque: () }
#[verifier::external_body] pub struct ObjectsClosure { _opaque: () }

// Bytes / RsyncUri comparisons and clones
pub uninterp spec fn bytes_eq(a: Bytes, b: Bytes) -> bool;
impl PartialEqSpecImpl for Bytes {
    open spec fn obeys_eq_spec() -> bool { true }
    open spec fn eq_spec(&self, other: &Bytes) -> bool { bytes_eq(*self, *other) }
}
impl PartialEq for Bytes {
    #[verifier::external_body]
    fn eq(&self, other: &Self) -> bool { unimplemented!() }
}
pub uninterp spec fn uri_eq(a: RsyncUri, b: RsyncUri) -> bool;
impl PartialEqSpecImpl for RsyncUri {
    open spec fn obeys_eq_spec() -> bool { true }
    open spec fn eq_spec(&self, other: &RsyncUri) -> bool { uri_eq(*self, *other) }
}
impl PartialEq for RsyncUri {
    #[verifier::external_body]
    fn eq(&self, other: &Self) -> bool { unimplemented!() }
}
impl Clone for RsyncUri {
    #[verifier::external_body]
    fn clone(&self) -> (r: RsyncUri) ensures r == *self, { unimplemented!() }
}

impl Validity {
    #[verifier::external_body]
    pub fn not_after(self) -> (r: Time) { unimplemented!() }
}
impl Clone for Validity { #[verifier::external_body] fn clone(&self) -> (r: Self) { unimplemented!() } }
impl Copy for Validity {}
impl ResourceCert {
    #[verifier::external_body]
    pub fn validity(&self) -> (r: Validity) { unimplemented!() }
}

// collector::Repository: what loading an object yields
#[verifier::external_body] pub struct CollRepository<'a> { _p: &'a Collector }
impl<'a> CollRepository<'a> {
    #[verifier::external_body]
    pub fn load_object(&self, uri: &RsyncUri) -> (r: Result<Option<Bytes>, RunFailed>) { unimplemented!() }
}

// randomised processing order of the manifest entries (not modelled: only the
// object closure, which is outside this unit, consumes it)
impl ManifestContent {
    #[verifier::external_body]
    pub fn iter(&self) -> (r: FileListIter) { unimplemented!() }
}
impl FileListIter {
    #[verifier::external_body]
    pub fn collect(self) -> (r: Vec<FileAndHash>) { unimplemented!() }
}
pub trait SliceRandom {
    fn shuffle(&mut self, rng: &mut ThreadRng);
}
impl<T> SliceRandom for Vec<T> {
    #[verifier::external_body]
    fn shuffle(&mut self, rng: &mut ThreadRng) { unimplemented!() }
}
#[verifier::external_body]
pub fn rand_rng() -> (r: ThreadRng) { unimplemented!() }

// R17: stands for the object closure of process_collected (body not part of this unit)
#[verifier::external_body]
pub fn opaque_objects_closure() -> (r: ObjectsClosure) { unimplemented!() }

// R14
#[verifier::external_body]
pub fn metric_inc(c: u32) -> (r: u32) { unimplemented!() }

// ghost: "validate_collected_manifest accepted these manifest bytes in this run"
// (unit manifest_policy proves what acceptance implies: never premature, not
// stale under the policy 'reject', validated under the CA, CRL checks passed)
pub uninterp spec fn collected_accepted(manifest_bytes: Bytes) -> bool;

impl ValidPointManifest {
    #[verifier::external_body]
    fn point_validity<T: ProcessPubPoint>(&self, processor: &mut T) { unimplemented!() }
}

impl<'a, P: ProcessRun> PubPoint<'a, P> {
    #[verifier::external_body]
    fn validate_collected_manifest(&mut self, manifest_bytes: Bytes, repository: &CollRepository)
        -> (r: Result<Option<ValidPointManifest>, RunFailed>)
        ensures
            r matches Ok(Some(m)) ==> collected_accepted(m.manifest_bytes) && m.manifest_bytes == manifest_bytes,
            final(self).run == old(self).run, final(self).cert == old(self).cert,
    { unimplemented!() }

    #[verifier::external_body]
    fn accept_point(self, manifest: ValidPointManifest, metrics: &mut RunMetrics) { unimplemented!() }

    #[verifier::external_body]
    fn reject_point(self, metrics: &mut RunMetrics) { unimplemented!() }
}

// store::StoredPoint::update (file system work, not extracted). Its
// preconditions are the call-site obligations of C05 / C06.
impl StoredPoint {
    #[verifier::external_body]
    fn update<F>(&mut self, store: &Store, manifest: StoredManifest, objects: F) -> (r: Result<(), UpdateError>)
        requires
            // C05: stored data is never replaced by a manifest that is not strictly newer
            old(self).manifest matches Some(s) ==> manifest.manifest_number.val() > s.manifest_number.val()
                && manifest.this_update.val() > s.this_update.val(),
            // C06: only a manifest accepted by validate_collected_manifest is ever stored
            collected_accepted(manifest.manifest),
    { unimplemented!() }
}
