// Environment of unit `newer`: opaque rpki / std / crate types and ASSUMED
// contracts of what check_collected_is_newer, StoredPoint::manifest and
// StoredPoint::reject call.

// ---- opaque types that only occur as field / parameter types
#[verifier::external_body] pub struct RsyncUri { _opaque: () }
#[verifier::external_body] pub struct HttpsUri { _opaque: () }
#[verifier::external_body] pub struct TalUri { _opaque: () }
#[verifier::external_body] pub struct Tal { _opaque: () }
#[verifier::external_body] pub struct Cert { _opaque: () }
#[verifier::external_body] pub struct ResourceCert { _opaque: () }
#[verifier::external_body] pub struct Crl { _opaque: () }
#[verifier::external_body] pub struct Validity { _opaque: () }
#[verifier::external_body] pub struct RouteOriginAttestation { _opaque: () }
#[verifier::external_body] pub struct AsProviderAttestation { _opaque: () }
#[verifier::external_body] pub struct Collector { _opaque: () }
#[verifier::external_body] pub struct Store { _opaque: () }
#[verifier::external_body] pub struct Metrics { _opaque: () }
#[verifier::external_body] pub struct CollectorRun<'a> { _p: &'a Collector }
#[verifier::external_body] pub struct StoreRun<'a> { _p: &'a Store }
#[verifier::external_body] pub struct PathBuf { _opaque: () }
#[verifier::external_body] pub struct AtomicBool { _opaque: () }
#[verifier::external_body] pub struct File { _opaque: () }
#[verifier::external_body] #[verifier::reject_recursive_types(T)] pub struct BufReader<T> { _t: T }
#[verifier::external_body] pub struct IoError { _opaque: () }
#[verifier::external_body] pub struct DecodeError { _opaque: () }
#[verifier::external_body] pub struct FmtArgs { _opaque: () }
#[verifier::external_body] pub struct LogBookWriter { _opaque: () }

// ---- bytes::Bytes: content identity only
#[verifier::external_body] pub struct Bytes { _opaque: () }
impl Clone for Bytes {
    #[verifier::external_body]
    fn clone(&self) -> (r: Bytes) ensures r == *self, { unimplemented!() }
}

// ---- rpki::repository::x509::{Serial, Time}: derived Ord over a 20 octet
// big-endian integer / a UTC time stamp. ASSUMED: a total order, represented
// by an injective integer value.
#[derive(Clone, Copy)]
#[verifier::external_body] pub struct Serial { _opaque: () }
#[derive(Clone, Copy)]
#[verifier::external_body] pub struct Time { _opaque: () }

impl Serial { pub uninterp spec fn val(&self) -> int; }
impl Time { pub uninterp spec fn val(&self) -> int; }

pub open spec fn int_cmp(a: int, b: int) -> Ordering {
    if a < b { Ordering::Less } else if a == b { Ordering::Equal } else { Ordering::Greater }
}

pub broadcast axiom fn serial_val_injective(a: Serial, b: Serial)
    ensures #[trigger] a.val() == #[trigger] b.val() ==> a == b;
pub broadcast axiom fn time_val_injective(a: Time, b: Time)
    ensures #[trigger] a.val() == #[trigger] b.val() ==> a == b;

impl PartialEqSpecImpl for Serial {
    open spec fn obeys_eq_spec() -> bool { true }
    open spec fn eq_spec(&self, other: &Serial) -> bool { self.val() == other.val() }
}
impl PartialEq for Serial {
    #[verifier::external_body]
    fn eq(&self, other: &Self) -> bool { unimplemented!() }
}
impl PartialOrdSpecImpl for Serial {
    open spec fn obeys_partial_cmp_spec() -> bool { true }
    open spec fn partial_cmp_spec(&self, other: &Serial) -> Option<Ordering> { Some(int_cmp(self.val(), other.val())) }
}
impl PartialOrd for Serial {
    #[verifier::external_body]
    fn partial_cmp(&self, other: &Serial) -> Option<Ordering> { unimplemented!() }
}
impl PartialEqSpecImpl for Time {
    open spec fn obeys_eq_spec() -> bool { true }
    open spec fn eq_spec(&self, other: &Time) -> bool { self.val() == other.val() }
}
impl PartialEq for Time {
    #[verifier::external_body]
    fn eq(&self, other: &Self) -> bool { unimplemented!() }
}
impl PartialOrdSpecImpl for Time {
    open spec fn obeys_partial_cmp_spec() -> bool { true }
    open spec fn partial_cmp_spec(&self, other: &Time) -> Option<Ordering> { Some(int_cmp(self.val(), other.val())) }
}
impl PartialOrd for Time {
    #[verifier::external_body]
    fn partial_cmp(&self, other: &Time) -> Option<Ordering> { unimplemented!() }
}
impl Time {
    #[verifier::external_body]
    pub fn now() -> (r: Time) { unimplemented!() }
}

// ---- rpki::repository::manifest
#[verifier::external_body] pub struct ManifestContent { _opaque: () }
#[verifier::external_body] pub struct Manifest { _opaque: () }

impl ManifestContent {
    pub uninterp spec fn number_spec(&self) -> Serial;
    pub uninterp spec fn this_update_spec(&self) -> Time;

    #[verifier::external_body]
    pub fn manifest_number(&self) -> (r: Serial) ensures r == self.number_spec(), { unimplemented!() }
    #[verifier::external_body]
    pub fn this_update(&self) -> (r: Time) ensures r == self.this_update_spec(), { unimplemented!() }
}

// What decoding a byte string as a manifest yields: a ghost function of the
// bytes and the strict flag (rpki decides it, this unit does not).
pub uninterp spec fn manifest_decode_spec(bytes: Bytes, strict: bool) -> Result<Manifest, DecodeError>;

impl Manifest {
    pub uninterp spec fn content_spec(&self) -> ManifestContent;

    #[verifier::external_body]
    pub fn decode(source: Bytes, strict: bool) -> (r: Result<Manifest, DecodeError>)
        ensures r == manifest_decode_spec(source, strict),
    { unimplemented!() }

    #[verifier::external_body]
    pub fn content(&self) -> (r: &ManifestContent) ensures *r == self.content_spec(), { unimplemented!() }
}

// ---- log / formatting (R2): content dropped, no effect on verified state
#[verifier::external_body]
pub fn fmt_opaque() -> (r: FmtArgs) { unimplemented!() }

impl LogBookWriter {
    #[verifier::external_body]
    pub fn warn(&mut self, args: FmtArgs) { unimplemented!() }
}

// ---- file system primitives used by StoredPoint::reject (results arbitrary)
impl File {
    #[verifier::external_body]
    pub fn create(path: &PathBuf) -> (r: Result<File, IoError>) { unimplemented!() }
}
impl StoredPointHeader {
    #[verifier::external_body]
    pub fn write(&self, writer: &mut File) -> (r: Result<(), IoError>) { unimplemented!() }
}
