//@ fn StoredPoint::manifest
//@ spec
    ensures
        match self.manifest { Some(m) => res == Some(&m), None => res is None },
//@ fn StoredPoint::is_new
//@ spec
    ensures res == self.is_new,
//@ fn StoredPoint::reject
//@ spec
    ensures
        // the stored manifest is gone whatever the file system says
        final(self).manifest is None,
        final(self).path == old(self).path,
//@ fn PubPoint::check_collected_is_newer
//@ spec
    ensures
        // C05 + C04 (the stored version is discarded only when it is itself unusable): the fetched manifest is declared newer only if there is no stored manifest, or
        // number and thisUpdate are both strictly greater, or the stored copy is internally
        // inconsistent (and has then been discarded)
        res == Ok::<bool, Failed>(true) ==> ({
            ||| old(stored).manifest is None
            ||| strictly_newer(collected, old(stored).manifest->Some_0)
            ||| (stored_inconsistent(old(stored).manifest->Some_0, old(self).run.validation.strict)
                    && final(stored).manifest is None)
        }),
        // C05 + C04: a replayed / reordered older manifest never displaces consistent stored data:
        // the answer is `false` and the stored point is untouched
        (old(stored).manifest matches Some(s)
            && !strictly_newer(collected, s)
            && !stored_inconsistent(s, old(self).run.validation.strict))
            ==> res == Ok::<bool, Failed>(false),
        res == Ok::<bool, Failed>(false) ==> *final(stored) == *old(stored),
        // C05: a really newer manifest (or a first one) is accepted and stored data is not touched by the check
        (old(stored).manifest is None || strictly_newer(collected, old(stored).manifest->Some_0))
            ==> res == Ok::<bool, Failed>(true) && *final(stored) == *old(stored),
        // C05: what the caller hands to StoredPoint::update next is never older than what is stored then
        res == Ok::<bool, Failed>(true) ==> update_allowed(collected, final(stored)),
        // an error can only come from discarding an inconsistent stored copy
        res is Err ==> old(stored).manifest is Some
            && stored_inconsistent(old(stored).manifest->Some_0, old(self).run.validation.strict),
        // frame: nothing of the validation state but the log is touched
        final(self).run == old(self).run, final(self).cert == old(self).cert,
        final(self).processor == old(self).processor,
        final(self).repository_index == old(self).repository_index,
        final(self).metrics == old(self).metrics,
//@ entry
        broadcast use serial_val_injective, time_val_injective;
//@ fn CaCert::ca_repository
//@ spec
    ensures res == &self.ca_repository,
//@ fn CaCert::rpki_manifest
//@ spec
    ensures res == &self.rpki_manifest,
//@ fn StoredManifest::new
//@ spec
    ensures
        // the cached (number, thisUpdate) pair is the manifest's own
        res.manifest_number == manifest.number_spec(), res.this_update == manifest.this_update_spec(),
        res.manifest == manifest_bytes, res.crl_uri == crl_uri, res.crl == crl,
//@ fn RunFailed::fatal
//@ spec
    ensures res == (RunFailed { fatal: true }),
//@ fn From<Failed> for RunFailed::from
//@ params
_failed: Failed
//@ fn PubPoint::process_collected
//@ closureopaque 1 opaque_objects_closure()
//@ fn CaCert::cert
//@ spec
    ensures res == &self.cert,
//@ fn CaCert::uri
//@ spec
    ensures res == &self.uri,
//@ fn CaCert::rpki_notify
//@ spec
    ensures res == self.cert.rpki_notify_spec(),
//@ fn RunFailed::retry
//@ spec
    ensures res == (RunFailed { fatal: false }),
//@ fn RunFailed::is_fatal
//@ spec
    ensures res == self.fatal,
//@ fn RunFailed::should_retry
//@ spec
    ensures res == !self.fatal,
//@ global
// Written from the property statement: manifest number strictly greater AND thisUpdate strictly later.
spec fn strictly_newer(c: &ValidPointManifest, s: StoredManifest) -> bool {
    c.content.number_spec().val() > s.manifest_number.val()
        && c.content.this_update_spec().val() > s.this_update.val()
}

// "the stored copy is internally inconsistent": the stored manifest bytes do not decode, or
// decode to a (number, thisUpdate) pair different from the one cached beside them.
spec fn stored_inconsistent(s: StoredManifest, strict: bool) -> bool {
    match manifest_decode_spec(s.manifest, strict) {
        Err(_) => true,
        Ok(m) => m.content_spec().number_spec() != s.manifest_number
              || m.content_spec().this_update_spec() != s.this_update,
    }
}

// Precondition of StoredPoint::update at its call site in process_collected.
spec fn update_allowed(c: &ValidPointManifest, stored: &StoredPoint) -> bool {
    stored.manifest matches Some(s) ==> strictly_newer(c, s)
}

// `?` converts Failed into RunFailed through the extracted From impl; its spec-level meaning
impl vstd::std_specs::convert::FromSpecImpl<Failed> for RunFailed {
    closed spec fn obeys_from_spec() -> bool { true }
    closed spec fn from_spec(v: Failed) -> RunFailed { RunFailed { fatal: true } }
}
