//@ fn RtrMetricsData::inc_current_connections
//@ spec
    ensures
        // C36: opening a connection adds exactly one to the open-connection counter, in one atomic step
        // (connections are opened and closed concurrently on different worker threads)
        atomically_added(&self.current_connections, 1usize),
//@ fn RtrMetricsData::dec_current_connections
//@ spec
    ensures
        // C36: closing a connection subtracts exactly one, in one atomic step: a lost decrement leaves the
        // count above zero after every connection has closed
        atomically_subtracted(&self.current_connections, 1usize),
//@ fn RtrMetricsData::current_connections
//@ spec
    ensures
        // C36: the reported number is the counter's value
        loaded_value(&self.current_connections, res),
