// Environment of unit `rtr_counter` (C36): std atomics (ASSUMED contracts).
// An atomic read-modify-write is the only operation that adds to / subtracts from the shared counter
// in one indivisible step; `load` followed by `store` is two steps, between which another connection's
// update can land and be overwritten -- so `store` establishes neither fact.
#[verifier::external_body] pub struct AtomicUsize { _opaque: () }
#[verifier::external_body] pub struct AtomicU32 { _opaque: () }
#[verifier::external_body] pub struct AtomicU64 { _opaque: () }
#[verifier::external_body] pub struct AtomicI64 { _opaque: () }
pub enum MemOrdering { Relaxed, Release, Acquire, AcqRel, SeqCst }

// ghost facts about the call that is running: the counter was changed by exactly +n / -n in ONE atomic step
pub uninterp spec fn atomically_added(a: &AtomicUsize, n: usize) -> bool;
pub uninterp spec fn atomically_subtracted(a: &AtomicUsize, n: usize) -> bool;
// the value an atomic held at the moment of a load
pub uninterp spec fn loaded_value(a: &AtomicUsize, v: usize) -> bool;

impl AtomicUsize {
    #[verifier::external_body]
    pub fn fetch_add(&self, val: usize, order: MemOrdering) -> (r: usize)
        ensures atomically_added(self, val)
    { unimplemented!() }
    #[verifier::external_body]
    pub fn fetch_sub(&self, val: usize, order: MemOrdering) -> (r: usize)
        ensures atomically_subtracted(self, val)
    { unimplemented!() }
    #[verifier::external_body]
    pub fn load(&self, order: MemOrdering) -> (r: usize)
        ensures loaded_value(self, r)
    { unimplemented!() }
    // a plain store: overwrites whatever other threads did since the last load
    #[verifier::external_body]
    pub fn store(&self, val: usize, order: MemOrdering)
    { unimplemented!() }
    #[verifier::external_body]
    pub fn swap(&self, val: usize, order: MemOrdering) -> (r: usize)
    { unimplemented!() }
    // succeeds only if the value is still `current`: then the change from `current` to `new` was one step
    #[verifier::external_body]
    pub fn compare_exchange(&self, current: usize, new: usize, success: MemOrdering, failure: MemOrdering) -> (r: Result<usize, usize>)
        ensures r is Ok && current >= 1 && new == current - 1 ==> atomically_subtracted(self, 1usize),
                r is Ok && new == current + 1 ==> atomically_added(self, 1usize),
    { unimplemented!() }
    #[verifier::external_body]
    pub fn compare_exchange_weak(&self, current: usize, new: usize, success: MemOrdering, failure: MemOrdering) -> (r: Result<usize, usize>)
        ensures r is Ok && current >= 1 && new == current - 1 ==> atomically_subtracted(self, 1usize),
                r is Ok && new == current + 1 ==> atomically_added(self, 1usize),
    { unimplemented!() }
}
