//@ prelude
// `expr?` is `match expr { Ok(v) => v, Err(e) => return Err(From::from(e)) }`. Verus models `?` without
// the conversion; rule R21 writes it as `expr.q_into::<E>()?` with this VERIFIED helper doing the conversion.
pub trait TryConvert<T, E>: Sized {
    fn q_into<F: From<E>>(self) -> Result<T, F>;
}
impl<T, E> TryConvert<T, E> for Result<T, E> {
    fn q_into<F: From<E>>(self) -> (r: Result<T, F>)
        ensures
            self matches Ok(v) ==> r == Ok::<T, F>(v),
            self matches Err(e) ==> r is Err && (<F as vstd::std_specs::convert::FromSpec<E>>::obeys_from_spec()
                ==> r->Err_0 == <F as vstd::std_specs::convert::FromSpec<E>>::from_spec(e)),
    {
        match self { Ok(v) => Ok(v), Err(e) => Err(F::from(e)) }
    }
}
// ---- specification vocabulary (RFC 8182 section 3.4.2 semantics of a delta file) ----
pub enum DeltaElement {
    Publish { uri: RsyncUri, hash: Option<RrdpHash>, content: Seq<u8> },
    Withdraw { uri: RsyncUri, hash: RrdpHash },
}

// Applying one element of a delta file to the object map `objs`; `seen` is the set of URIs the
// file has already touched. None = the element must be refused.
pub open spec fn apply_elem(objs: Map<RsyncUri, Seq<u8>>, seen: Set<RsyncUri>, e: DeltaElement)
    -> Option<(Map<RsyncUri, Seq<u8>>, Set<RsyncUri>)>
{
    match e {
        DeltaElement::Publish { uri, hash: None, content } =>
            // a new object: must not be there yet
            if seen.contains(uri) || objs.contains_key(uri) { None }
            else { Some((objs.insert(uri, content), seen.insert(uri))) },
        DeltaElement::Publish { uri, hash: Some(h), content } =>
            // a replacement: the object must be there with exactly the announced hash
            if seen.contains(uri) || !objs.contains_key(uri) || sha256(objs[uri]) != h { None }
            else { Some((objs.insert(uri, content), seen.insert(uri))) },
        DeltaElement::Withdraw { uri, hash } =>
            if seen.contains(uri) || !objs.contains_key(uri) || sha256(objs[uri]) != hash { None }
            else { Some((objs.remove(uri), seen.insert(uri))) },
    }
}

// The content of a delta file: header values and the list of elements.
pub struct DeltaFile { pub session: Uuid, pub serial: u64, pub elements: Seq<DeltaElement> }

pub open spec fn apply_all(objs: Map<RsyncUri, Seq<u8>>, seen: Set<RsyncUri>, es: Seq<DeltaElement>)
    -> Option<(Map<RsyncUri, Seq<u8>>, Set<RsyncUri>)>
    decreases es.len()
{
    if es.len() == 0 { Some((objs, seen)) }
    else {
        match apply_elem(objs, seen, es[0]) {
            None => None,
            Some((o, s)) => apply_all(o, s, es.skip(1)),
        }
    }
}

pub open spec fn delta_meta_ok(expected_session: Uuid, info: &DeltaInfo, session: Uuid, serial: u64) -> bool {
    session == expected_session && serial == info.serial_spec()
}

// `after` is `before` with one complete delta file applied: a byte string with the SHA-256 listed
// for `info`, carrying the expected session and `info`'s serial in its header, all of whose
// elements were accepted in order.
pub open spec fn delta_applied(before: Map<RsyncUri, Seq<u8>>, after: Map<RsyncUri, Seq<u8>>, session: Uuid, info: &DeltaInfo) -> bool {
    exists|bytes: Seq<u8>| #[trigger] sha256(bytes) == info.hash_spec() && ({
        let f = parse_delta(bytes);
        &&& f.session == session && f.serial == info.serial_spec()
        &&& apply_all(before, Set::<RsyncUri>::empty(), f.elements) matches Some(r) && r.0 == after
    })
}

// `b` is `a0` with the first `n` deltas of `ds` applied, each completely, in order.
pub open spec fn chain_n(a0: Map<RsyncUri, Seq<u8>>, b: Map<RsyncUri, Seq<u8>>, session: Uuid, ds: Seq<DeltaInfo>, n: int) -> bool
    decreases n
{
    if n <= 0 { a0 == b }
    else { exists|mid: Map<RsyncUri, Seq<u8>>, m: int| m == n - 1 && chain_n(a0, mid, session, ds, m) && #[trigger] delta_applied(mid, b, session, &ds[m]) }
}

//@ fn RunFailed::fatal
//@ spec
    ensures res.fatal,
//@ fn RunFailed::retry
//@ spec
    ensures !res.fatal,
//@ fn RunFailed::should_retry
//@ spec
    ensures res == !self.fatal,
//@ fn Collector::config
//@ spec
    ensures res == &self.config,
//@ fn Collector::http
//@ spec
    ensures res == &self.http,
//@ fn DeltaError::from_hash_mismatch
//@ params
_unused: HashMismatch
//@ fn Notification::content
//@ spec
    ensures res == &self.content,
//@ fn Notification::check_deltas
//@ spec
    ensures
        // C25 (mutated delta lists): Ok only if no listed delta contradicts the hash remembered for its serial
        res is Ok ==> forall|i: int| 0 <= i < self.content.deltas_spec().len() ==>
            !contradicts(#[trigger] self.content.deltas_spec()[i], state),
        // ... and an error is DeltaMutation and is only raised for a real contradiction
        res matches Err(r) ==> (r is DeltaMutation)
            && exists|i: int| 0 <= i < self.content.deltas_spec().len() && contradicts(#[trigger] self.content.deltas_spec()[i], state),
//@ loopvar 1 it
//@ loop 1
            invariant
                it.seq().len() == self.content.deltas_spec().len(),
                forall|i: int| 0 <= i < it.seq().len() ==> *#[trigger] it.seq()[i] == self.content.deltas_spec()[i],
                forall|i: int| 0 <= i < it.index@ ==> !contradicts(#[trigger] self.content.deltas_spec()[i], state),
//@ fn RepositoryState::touch
//@ spec
    ensures
        // C29: a copy confirmed by the server (304) counts as updated NOW: its best-before is a fresh draw
        // for the fallback window counted from now, whatever the old values were -- the same as after a
        // real update; so a later failed update finds it Current, not Stale, for the whole window
        is_now(final(self).updated_ts),
        // C29: (the best-before is redrawn unconditionally)
        fresh_draw(fallback, final(self).best_before_ts),
        final(self).session == old(self).session, final(self).serial == old(self).serial,
        final(self).rpki_notify == old(self).rpki_notify, final(self).etag == old(self).etag,
        final(self).last_modified_ts == old(self).last_modified_ts,
        final(self).delta_state == old(self).delta_state,
//@ fn SnapshotUpdate::meta
//@ spec
    ensures
        // C25: a snapshot file is only accepted for the session and serial of the notification file
        res is Ok <==> (session_id == old(self).notify.content.session_spec()
                        && serial == old(self).notify.content.serial_spec()),
        // C41 + C25: a wrong header is an error of this repository, never RunFailed
        res matches Err(e) ==> !(e is RunFailed),
        *final(self) == *old(self),
//@ fn SnapshotError::from_hash_mismatch
//@ params
_unused: HashMismatch
//@ fn SnapshotUpdate::new
//@ spec
    ensures
        res.collector == collector, res.notify == notify,
        *res.archive == *old(archive), *final(res.archive) == *final(archive),
        *res.metrics == *old(metrics), *final(res.metrics) == *final(metrics),
//@ fn SnapshotUpdate::publish
//@ spec
    ensures
        // C41 + C25: a fault in the CONTENT of the served snapshot (an object that is too large or
        // unreadable, the same URI twice) is an error of this repository only; RunFailed (which aborts
        // the whole validation run) is returned only after a fault of the LOCAL archive file
        res matches Err(e) ==> (e is RunFailed ==> local_archive_fault(old(self).archive.path_spec())),
        // C41 + C25: the same URI published twice is reported as DuplicateObject
        (res matches Err(e) && !(e is LargeObject) && !(e is Rrdp) && !(e is RunFailed)
            && old(self).archive.objects().contains_key(uri)) ==> res->Err_0 is DuplicateObject,
        // a published object lands in the temporary archive under its URI
        res is Ok ==> !old(self).archive.objects().contains_key(uri)
            && final(self).archive.objects() == old(self).archive.objects().insert(uri, old(data).content_spec()),
        final(self).notify == old(self).notify, final(self).collector == old(self).collector,
        final(self).archive.path_spec() == old(self).archive.path_spec(),
//@ closure map_err 1 optional
|err: PublishError| -> (r: SnapshotError)
    // C41 + C25: only a local archive error becomes RunFailed; a duplicate URI is DuplicateObject
    ensures err is AlreadyExists ==> r is DuplicateObject, r is RunFailed <==> err is Archive
//@ fn SnapshotUpdate::try_update
//@ entry
        proof { axiom_snapshot_error_from_self(); }
//@ spec
    ensures
        // C41 + C25: whatever the server sends (HTTP error or status, malformed XML, wrong session or
        // serial, oversized or duplicate objects, hash mismatch), the snapshot update fails with an
        // error of THIS repository; RunFailed only after a fault of the local archive file
        res matches Err(e) ==> (e is RunFailed ==> local_archive_fault(old(self.archive).path_spec())),
//@ fn DeltaUpdate::new
//@ spec
    ensures
        res.collector == collector, res.session_id == session_id, res.info == info,
        *res.archive == *old(archive), *final(res.archive) == *final(archive),
        *res.metrics == *old(metrics), *final(res.metrics) == *final(metrics),
        res.seen@ == Set::<RsyncUri>::empty(),
//@ fn DeltaUpdate::try_update
//@ spec
    requires self.seen@ == Set::<RsyncUri>::empty(),
    ensures
        // C25: Ok only after the whole file was processed (header accepted, every element
        // applied) AND its SHA-256 equals the one listed in the notification file
        res is Ok ==> delta_applied(old(self.archive).objects(), final(self.archive).objects(),
                                    self.session_id, self.info),
        final(self.archive).state() == old(self.archive).state(),
        final(self.archive).path_spec() == old(self.archive).path_spec(),
//@ fn DeltaUpdate::meta
//@ spec
    ensures
        // C25: a delta file is only accepted for the session and serial it was listed under
        res is Ok <==> (session_id == old(self).session_id && serial == old(self).info.serial_spec()),
        *final(self) == *old(self),
//@ fn DeltaUpdate::publish
//@ spec
    ensures
        // C25: Ok exactly describes one accepted publish element; every refusal is an error
        res is Ok ==> apply_elem(old(self).archive.objects(), old(self).seen@,
                DeltaElement::Publish { uri, hash, content: old(data).content_spec() })
            == Some((final(self).archive.objects(), final(self).seen@)),
        // the listed error cases
        (old(self).seen@.contains(uri)) ==> res is Err,
        // frame
        final(self).session_id == old(self).session_id, final(self).info == old(self).info,
        final(self).collector == old(self).collector,
        final(self).archive.state() == old(self).archive.state(),
//@ entry
        broadcast use axiom_rsync_uri_key_model;
//@ closure map_err 1 optional
|err: AccessError| -> (r: DeltaError) ensures true
//@ closure map_err 2 optional
|err: PublishError| -> (r: DeltaError) ensures true
//@ fn DeltaUpdate::withdraw
//@ spec
    ensures
        res is Ok ==> apply_elem(old(self).archive.objects(), old(self).seen@,
                DeltaElement::Withdraw { uri, hash })
            == Some((final(self).archive.objects(), final(self).seen@)),
        (old(self).seen@.contains(uri)) ==> res is Err,
        final(self).session_id == old(self).session_id, final(self).info == old(self).info,
        final(self).collector == old(self).collector,
        final(self).archive.state() == old(self).archive.state(),
//@ entry
        broadcast use axiom_rsync_uri_key_model;
//@ closure map_err 1 optional
|err: AccessError| -> (r: DeltaError) ensures true
//@ fn RepositoryUpdate::calc_deltas
//@ spec
    ensures
        // C25: deltas are only used within the same session
        res is Ok ==> notify.session_spec() == state.session,
        // C25: the list to apply leads from the local serial to the notified serial without gaps
        res matches Ok(ds) ==> delta_path(ds@, state.serial, notify.serial_spec()),
        // the list is a tail of the (sorted) list in the notification file
        res matches Ok(ds) ==> ds@.len() == 0 || is_tail(ds@, notify.deltas_spec()),
        // and not longer than configured
        res matches Ok(ds) ==> ds@.len() <= old(self).collector.config.max_delta_count,
        // frame: only the log book is written
        final(self).collector == old(self).collector, final(self).path == old(self).path,
        final(self).rpki_notify == old(self).rpki_notify, final(self).metrics == old(self).metrics,
//@ closure map 1 optional
|delta: &DeltaInfo| -> (r: u64) ensures r == delta.serial_spec()
//@ loop 1
            invariant
                serial == state.serial + 1,
                is_tail(deltas@, notify.deltas_spec()),
                // the check made before the loop: the newest listed delta leads to the notified serial
                deltas@.len() > 0 ==> deltas@[deltas@.len() - 1].serial_spec() == notify.serial_spec(),
            ensures
                deltas@.len() > 0, deltas@[0].serial_spec() == serial,
                deltas@[deltas@.len() - 1].serial_spec() == notify.serial_spec(),
                is_tail(deltas@, notify.deltas_spec()),
            decreases deltas@.len(),
//@ loopvar 2 it
//@ loop 2 optional
            // (this loop exists only once the candidate repair findings/C25_gapped_delta_list.fix.patch is applied)
            invariant
                serial == state.serial + 1,
                is_tail(deltas@, notify.deltas_spec()),
                deltas@.len() > 0, deltas@[deltas@.len() - 1].serial_spec() == notify.serial_spec(),
                it.seq().len() == deltas@.len(),
                forall|i: int| 0 <= i < deltas@.len() ==> *#[trigger] it.seq()[i] == deltas@[i],
                0 <= it.index@ <= deltas@.len(),
                // C25: every delta checked so far has exactly the next serial
                forall|i: int| 0 <= i < it.index@ ==> (#[trigger] deltas@[i]).serial_spec() == serial + i,
                it.index@ == 0 ==> expected == Some(serial),
                it.index@ > 0 ==> expected == (if serial + it.index@ <= u64::MAX { Some((serial + it.index@) as u64) } else { None }),
//@ fn RepositoryUpdate::delta_update
//@ spec
    // the copy handed in is at the serial its state record names
    requires copy_consistent(archive, state),
    ensures
        // C25: "up to date by deltas" is reported only if the local objects went through a gap-free
        // list of completely applied, hash-checked deltas from the stored serial to the notified
        // serial of the same session, and the new state record was written after the last of them
        res matches Ok(None) ==> exists|ds: Seq<DeltaInfo>, objs: Map<RsyncUri, Seq<u8>>, st: RepositoryState|
            notify.content.session_spec() == state.session
            && #[trigger] delta_path(ds, state.serial, notify.content.serial_spec())
            && (ds.len() == 0 || is_tail(ds, notify.content.deltas_spec()))
            && chain_n(archive.objects(), objs, state.session, ds, ds.len() as int)
            && st.session == notify.content.session_spec() && st.serial == notify.content.serial_spec()
            && #[trigger] archive_committed(archive.path_spec(), objs, st),
        // the delta list is checked against the remembered hashes before anything is applied
        res matches Ok(None) ==> forall|i: int| 0 <= i < notify.content.deltas_spec().len() ==>
            !contradicts(#[trigger] notify.content.deltas_spec()[i], &state),
        // C25 (mutated delta lists): ANY listed delta -- also one that is older than the local serial and
        // would not be applied -- whose hash differs from the one remembered for its serial makes the
        // update fall back to the snapshot with reason DeltaMutation (unless the list is oversized)
        (notify.content.delta_status_spec() is Ok
            && exists|i: int| 0 <= i < notify.content.deltas_spec().len() && contradicts(#[trigger] notify.content.deltas_spec()[i], &state))
            ==> (res matches Ok(Some(r)) && r is DeltaMutation),
        // C41 + C25: whatever the deltas contain, a failing delta only leads to the snapshot fallback
        // (Ok(Some(reason))); the run-level error is returned only after a fault of the local archive file
        res is Err ==> local_archive_fault(archive.path_spec()),
        // frame
        final(self).collector == old(self).collector, final(self).path == old(self).path,
        final(self).rpki_notify == old(self).rpki_notify,
//@ beforeloop 1
            let ghost a0 = archive.objects();
            let ghost path0 = archive.path_spec();
//@ loopvar 1 it
//@ loop 1
                invariant
                    it.seq().len() == deltas@.len(),
                    forall|i: int| 0 <= i < deltas@.len() ==> *#[trigger] it.seq()[i] == deltas@[i],
                    0 <= it.index@ <= deltas@.len(),
                    __enum_n == it.index@,
                    count == deltas@.len(),
                    archive.path_spec() == path0,
                    notify.content.session_spec() == state.session,
                    forall|i: int| 0 <= i < notify.content.deltas_spec().len() ==>
                        !contradicts(#[trigger] notify.content.deltas_spec()[i], &state),
                    // C25: the content has reached exactly the serial of the last delta applied so far
                    delta_path(deltas@, state.serial, notify.content.serial_spec()),
                    serial_reached(archive.objects(), state.session, (state.serial + it.index@) as u64),
                    // C25: the deltas applied so far, each completely, in list order
                    chain_n(a0, archive.objects(), state.session, deltas@, it.index@ as int),
                    self.collector == old(self).collector, self.path == old(self).path,
                    self.rpki_notify == old(self).rpki_notify,
//@ loopentry 1
                    broadcast use axiom_delta_advances_serial;
                    let ghost before = archive.objects();
//@ loopend 1
                    proof {
                        assert(chain_n(a0, before, state.session, deltas@, it.index@ as int));
                        assert(delta_applied(before, archive.objects(), state.session, &deltas@[it.index@ as int]));
                        assert(chain_n(a0, archive.objects(), state.session, deltas@, it.index@ + 1));
                    }
//@ fn RepositoryUpdate::not_modified
//@ spec
    requires current matches Some(c) ==> copy_consistent(c.0, c.1),
    ensures
        // the copy is kept as it is; only its state record is refreshed (same session and serial)
        (current matches Some(c) ==> (res is Ok ==> kept_current(c.0, c.1))),
        // C29: the record written on a 304 is updated now and carries a freshly drawn best-before
        (current matches Some(c) ==> (res is Ok ==> exists|st: RepositoryState|
            #[trigger] archive_committed(c.0.path_spec(), c.0.objects(), st)
            && is_now(st.updated_ts) && fresh_draw(old(self).collector.config.fallback_time, st.best_before_ts))),
        res is Err ==> exists|p: PathBuf| #[trigger] local_archive_fault(p),
        final(self).collector == old(self).collector, final(self).path == old(self).path,
        final(self).rpki_notify == old(self).rpki_notify,
//@ fn RepositoryUpdate::update
//@ spec
    requires current matches Some(c) ==> copy_consistent(c.0, c.1),
    ensures
        // C25: success is reported only for one of the three ways of being up to date
        res matches Ok(true) ==> update_ok(current, *old(self).path, *old(self).rpki_notify),
        // C29: "the update failed" means: no notification file could be had, or the snapshot update failed
        res matches Ok(false) ==> update_failed(*old(self).path, *old(self).rpki_notify),
        // C41 + C25: no answer of the server (HTTP failure, bad XML, bad or conflicting deltas, a broken
        // snapshot) makes the update return the run-level error; that only follows a local file fault
        res is Err ==> exists|p: PathBuf| #[trigger] local_archive_fault(p),
        final(self).collector == old(self).collector, final(self).path == old(self).path,
        final(self).rpki_notify == old(self).rpki_notify,
//@ closure map 1 optional
|x: &(RrdpArchive, RepositoryState)| -> (r: &RepositoryState) ensures r == &x.1
//@ fn RepositoryUpdate::try_update
//@ spec
    ensures
        // `cur`: the local copy the call found at the repository's path (None: no usable copy); see `classified`
        res is Ok ==> exists|cur: Option<(RrdpArchive, RepositoryState)>|
            #[trigger] classified_result(cur, *self.path, *self.rpki_notify, res),
        // C41 + C25: the run-level error only after a fault of a local file
        res is Err ==> exists|p: PathBuf| #[trigger] local_archive_fault(p),
//@ exit
        // the witness: the copy this call opened (binding `current`) and the result it is about to return
        proof {
            // C25 + C29: the copy the classification is about is the one found at the path (or none was found)
            assert(local_copy(*self.path, current));
            // C25: Updated only after a successful update of that copy
            assert(res matches LoadResult::Updated(repo) ==> repo.path_spec() == *self.path && update_ok(current, *self.path, *self.rpki_notify));
            // C29: a successful update is reported as Updated
            assert(!(res is Updated) ==> update_failed(*self.path, *self.rpki_notify));
            // C29: failed update: no copy => Unavailable, unexpired copy => Current, expired copy => Stale
            assert(!(res is Updated) ==> failed_outcome(current, res));
            assert(classified(current, *self.path, *self.rpki_notify, res));
            assert(classified_result(current, *self.path, *self.rpki_notify, Ok((res, self_.metrics))));
        }
//@ closure and_then 1
|current: &(RrdpArchive, RepositoryState)| -> (r: Option<DateTime<Utc>>) ensures r == current.1.best_before_spec()
//@ global
spec fn classified_result(cur: Option<(RrdpArchive, RepositoryState)>, path: PathBuf, uri: Https,
                          r: Result<(LoadResult<Repository>, RrdpRepositoryMetrics), RunFailed>) -> bool {
    r matches Ok(v) ==> classified(cur, path, uri, v.0)
}
// What RepositoryUpdate::try_update reports (`lr`) for the local copy `cur` it found at `path`:
spec fn classified(cur: Option<(RrdpArchive, RepositoryState)>, path: PathBuf, uri: Https, lr: LoadResult<Repository>) -> bool {
    &&& local_copy(path, cur)
    // C25: the repository is reported as updated only if the update succeeded (see update_ok), for that
    // copy with the state record loaded from it; never for a failure
    &&& (lr matches LoadResult::Updated(repo) ==> repo.path_spec() == path && update_ok(cur, path, uri))
    // C29: a successful update is reported as Updated: anything else means the update failed ...
    &&& (!(lr is Updated) ==> update_failed(path, uri))
    // C29: ... and a failed update is classified by the copy that was found: none => Unavailable;
    // best-before not passed (at the clock reading taken in the call) => Current; passed => Stale
    &&& (!(lr is Updated) ==> failed_outcome(cur, lr))
}

// the local copy found at `path`: an archive there with the state record loaded from it, or none
spec fn local_copy(path: PathBuf, cur: Option<(RrdpArchive, RepositoryState)>) -> bool {
    match cur {
        Some(c) => c.0.path_spec() == path && c.1 == c.0.state(),
        None => no_usable_copy(path),
    }
}
spec fn update_failed(path: PathBuf, uri: Https) -> bool {
    // no notification file, a failed snapshot update, or a `304 Not Modified` although there is no copy
    notification_failed(uri) || snapshot_failed(path) || not_modified_received(uri)
}
// C29, written from the property statement: how a FAILED update is reported
spec fn failed_outcome(cur: Option<(RrdpArchive, RepositoryState)>, r: LoadResult<Repository>) -> bool {
    match cur {
        // failed with no local copy
        None => r is Unavailable,
        Some(c) =>
            // failed with a copy that is still current
            if !c.1.expired_now() { r is Current }
            // failed with an expired copy
            else if c.1.best_before_spec() is Some { r is Stale }
            // (a copy whose best-before is not even a valid time counts as no copy)
            else { r is Unavailable },
    }
}

// the copy `a` holds the content of the session and serial its state record `s` names
spec fn copy_consistent(a: RrdpArchive, s: RepositoryState) -> bool {
    serial_reached(a.objects(), s.session, s.serial)
}

// Not Modified: the existing copy `a` (state record `s`) stays, its record is rewritten with the same identity.
spec fn kept_current(a: RrdpArchive, s: RepositoryState) -> bool {
    exists|st: RepositoryState| st.session == s.session && st.serial == s.serial
        && #[trigger] archive_committed(a.path_spec(), a.objects(), st)
}

// Delta update of the copy `a` (state record `s`) to notification `n` succeeded.
spec fn delta_ok(a: RrdpArchive, s: RepositoryState, n: Notification) -> bool {
    exists|ds: Seq<DeltaInfo>, objs: Map<RsyncUri, Seq<u8>>, st: RepositoryState|
        n.content.session_spec() == s.session
        && #[trigger] delta_path(ds, s.serial, n.content.serial_spec())
        && (ds.len() == 0 || is_tail(ds, n.content.deltas_spec()))
        && chain_n(a.objects(), objs, s.session, ds, ds.len() as int)
        && st.session == n.content.session_spec() && st.serial == n.content.serial_spec()
        && #[trigger] archive_committed(a.path_spec(), objs, st)
}

// The three ways in which an update may be reported as successful.
spec fn update_ok(current: Option<(RrdpArchive, RepositoryState)>, path: PathBuf, uri: Https) -> bool {
    ||| (current matches Some(c) && not_modified_received(uri) && kept_current(c.0, c.1))
    ||| exists|n: Notification| #[trigger] notification_received(uri, n) && (
            (current matches Some(c) && delta_ok(c.0, c.1, n))
            || snapshot_installed(path, n.content.session_spec(), n.content.serial_spec()))
}
// `ds` is exactly the list of deltas with serials from+1, from+2, .., to (empty iff from == to).
spec fn delta_path(ds: Seq<DeltaInfo>, from: u64, to: u64) -> bool {
    &&& from + ds.len() == to
    &&& forall|i: int| 0 <= i < ds.len() ==> (#[trigger] ds[i]).serial_spec() == from + 1 + i
}

// the notification lists delta `d` with a hash different from the one remembered for its serial
spec fn contradicts(d: DeltaInfo, state: &RepositoryState) -> bool {
    state.delta_state@.contains_key(d.serial_spec()) && state.delta_state@[d.serial_spec()] != d.hash_spec()
}

spec fn is_tail(ds: Seq<DeltaInfo>, all: Seq<DeltaInfo>) -> bool {
    &&& ds.len() <= all.len()
    &&& forall|i: int| 0 <= i < ds.len() ==> #[trigger] ds[i] == all[all.len() - ds.len() + i]
}

// Nothing is claimed about the value produced by this conversion (only that it is an error value).
impl vstd::std_specs::convert::FromSpecImpl<LimitedDataReadError> for DeltaError {
    open spec fn obeys_from_spec() -> bool { false }
    open spec fn from_spec(v: LimitedDataReadError) -> DeltaError { arbitrary() }
}

impl vstd::std_specs::convert::FromSpecImpl<HashMismatch> for DeltaError {
    open spec fn obeys_from_spec() -> bool { false }
    open spec fn from_spec(v: HashMismatch) -> DeltaError { arbitrary() }
}
impl vstd::std_specs::convert::FromSpecImpl<StatusCode> for DeltaError {
    open spec fn obeys_from_spec() -> bool { false }
    open spec fn from_spec(v: StatusCode) -> DeltaError { arbitrary() }
}
impl vstd::std_specs::convert::FromSpecImpl<ReqwestError> for DeltaError {
    open spec fn obeys_from_spec() -> bool { false }
    open spec fn from_spec(v: ReqwestError) -> DeltaError { arbitrary() }
}
impl vstd::std_specs::convert::FromSpecImpl<StatusCode> for HttpStatus {
    open spec fn obeys_from_spec() -> bool { false }
    open spec fn from_spec(v: StatusCode) -> HttpStatus { arbitrary() }
}

// The error conversions used by `?` in the snapshot path, stated exactly (checked against the
// extracted `from` bodies): only From<RunFailed> yields SnapshotError::RunFailed.
impl vstd::std_specs::convert::FromSpecImpl<HashMismatch> for SnapshotError {
    open spec fn obeys_from_spec() -> bool { true }
    open spec fn from_spec(v: HashMismatch) -> SnapshotError { SnapshotError::HashMismatch }
}
impl vstd::std_specs::convert::FromSpecImpl<StatusCode> for SnapshotError {
    open spec fn obeys_from_spec() -> bool { true }
    open spec fn from_spec(v: StatusCode) -> SnapshotError { SnapshotError::HttpStatus(v) }
}
impl vstd::std_specs::convert::FromSpecImpl<ReqwestError> for SnapshotError {
    open spec fn obeys_from_spec() -> bool { true }
    open spec fn from_spec(v: ReqwestError) -> SnapshotError { SnapshotError::Http(v) }
}
impl vstd::std_specs::convert::FromSpecImpl<LimitedDataReadError> for SnapshotError {
    open spec fn obeys_from_spec() -> bool { true }
    open spec fn from_spec(v: LimitedDataReadError) -> SnapshotError {
        match v {
            LimitedDataReadError::LargeObject(uri) => SnapshotError::LargeObject(uri),
            LimitedDataReadError::Read(err) => SnapshotError::Rrdp(process_error_of_io(err)),
        }
    }
}
impl vstd::std_specs::convert::FromSpecImpl<RunFailed> for SnapshotError {
    open spec fn obeys_from_spec() -> bool { true }
    open spec fn from_spec(v: RunFailed) -> SnapshotError { SnapshotError::RunFailed(v) }
}
