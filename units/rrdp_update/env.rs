// Environment of unit `rrdp_update` (C25): opaque types and ASSUMED contracts
// for everything the RRDP update functions call that is not extracted.

// ---- opaque leaf types
#[verifier::external_body] pub struct Https { _opaque: () }
#[verifier::external_body] pub struct PathBuf { _opaque: () }
#[verifier::external_body] pub struct HttpClient { _opaque: () }
#[verifier::external_body] pub struct Bytes { _opaque: () }
#[verifier::external_body] pub struct FmtArgs { _opaque: () }
#[verifier::external_body] pub struct LogBook { _opaque: () }
#[verifier::external_body] pub struct LogBookWriter { _opaque: () }
#[verifier::external_body] pub struct Duration { _opaque: () }
#[verifier::external_body] pub struct SystemTimeError { _opaque: () }

#[derive(Clone, Copy)]
#[verifier::external_body] pub struct FallbackTime { _opaque: () }

// uuid::Uuid is a 128-bit value compared bitwise.
#[derive(Clone, Copy)]
pub struct Uuid(pub u128);
impl PartialEqSpecImpl for Uuid {
    open spec fn obeys_eq_spec() -> bool { true }
    open spec fn eq_spec(&self, other: &Uuid) -> bool { self.0 == other.0 }
}
impl PartialEq for Uuid {
    #[verifier::external_body]
    fn eq(&self, other: &Self) -> bool { unimplemented!() }
}

// rpki::rrdp::Hash: a SHA-256 value compared bitwise.
#[derive(Clone, Copy)]
#[verifier::external_body] pub struct RrdpHash { _opaque: () }
impl PartialEqSpecImpl for RrdpHash {
    open spec fn obeys_eq_spec() -> bool { true }
    open spec fn eq_spec(&self, other: &RrdpHash) -> bool { *self == *other }
}
impl PartialEq for RrdpHash {
    #[verifier::external_body]
    fn eq(&self, other: &Self) -> bool { unimplemented!() }
}

#[verifier::external_body] pub fn fmt_opaque() -> FmtArgs { unimplemented!() }

impl LogBookWriter {
    #[verifier::external_body] pub fn debug(&mut self, args: FmtArgs) { unimplemented!() }
    #[verifier::external_body] pub fn info(&mut self, args: FmtArgs) { unimplemented!() }
    #[verifier::external_body] pub fn warn(&mut self, args: FmtArgs) { unimplemented!() }
}

// ---- rpki::rrdp::{DeltaInfo, NotificationFile}
#[verifier::external_body] pub struct DeltaInfo { _opaque: () }
impl DeltaInfo {
    pub uninterp spec fn serial_spec(&self) -> u64;
    pub uninterp spec fn hash_spec(&self) -> RrdpHash;
    #[verifier::external_body]
    pub fn serial(&self) -> (r: u64) ensures r == self.serial_spec() { unimplemented!() }
    #[verifier::external_body]
    pub fn hash(&self) -> (r: RrdpHash) ensures r == self.hash_spec() { unimplemented!() }
}

#[verifier::external_body] pub struct NotificationFile { _opaque: () }
impl NotificationFile {
    pub uninterp spec fn session_spec(&self) -> Uuid;
    pub uninterp spec fn serial_spec(&self) -> u64;
    pub uninterp spec fn deltas_spec(&self) -> Seq<DeltaInfo>;

    #[verifier::external_body]
    pub fn session_id(&self) -> (r: Uuid) ensures r == self.session_spec() { unimplemented!() }
    #[verifier::external_body]
    pub fn serial(&self) -> (r: u64) ensures r == self.serial_spec() { unimplemented!() }
    #[verifier::external_body]
    pub fn deltas(&self) -> (r: &[DeltaInfo]) ensures r@ == self.deltas_spec() { unimplemented!() }
}

// ---- more opaque leaf types
#[verifier::external_body] pub struct ReqwestError { _opaque: () }
// http::StatusCode: a 16-bit status value.
#[derive(Clone, Copy)]
pub struct StatusCode(pub u16);
impl StatusCode {
    pub const OK: StatusCode = StatusCode(200);
    pub const NOT_MODIFIED: StatusCode = StatusCode(304);
}
impl PartialEqSpecImpl for StatusCode {
    open spec fn obeys_eq_spec() -> bool { true }
    open spec fn eq_spec(&self, other: &StatusCode) -> bool { self.0 == other.0 }
}
impl PartialEq for StatusCode {
    #[verifier::external_body]
    fn eq(&self, other: &Self) -> bool { unimplemented!() }
}
#[verifier::external_body] pub struct ProcessError { _opaque: () }
#[verifier::external_body] pub struct IoError { _opaque: () }
pub uninterp spec fn process_error_of_io(err: IoError) -> ProcessError;
impl vstd::std_specs::convert::FromSpecImpl<IoError> for ProcessError {
    open spec fn obeys_from_spec() -> bool { true }
    open spec fn from_spec(v: IoError) -> ProcessError { process_error_of_io(v) }
}
impl From<IoError> for ProcessError {
    #[verifier::external_body] fn from(err: IoError) -> Self { unimplemented!() }
}
#[verifier::external_body] pub struct Utc { _opaque: () }
#[verifier::external_body] #[verifier::reject_recursive_types(T)] pub struct DateTime<T> { _t: T }
#[verifier::external_body] pub struct ObjectReader<'a> { _p: &'a () }

// rpki::uri::Rsync: compared and hashed by value.
#[verifier::external_body] pub struct RsyncUri { _opaque: () }
impl Clone for RsyncUri {
    #[verifier::external_body]
    fn clone(&self) -> (r: Self) ensures r == *self { unimplemented!() }
}
impl PartialEq for RsyncUri {
    #[verifier::external_body]
    fn eq(&self, other: &Self) -> bool { unimplemented!() }
}
impl Eq for RsyncUri {}
impl std::hash::Hash for RsyncUri {
    #[verifier::external_body]
    fn hash<H: std::hash::Hasher>(&self, state: &mut H) { unimplemented!() }
}
// ASSUMED: Eq/Hash of uri::Rsync are consistent (needed for the HashSet model).
pub broadcast axiom fn axiom_rsync_uri_key_model()
    ensures #[trigger] vstd::std_specs::hash::obeys_key_model::<RsyncUri>();

// SHA-256 of a byte string (as an rrdp::Hash value).
pub uninterp spec fn sha256(content: Seq<u8>) -> RrdpHash;
impl RrdpHash {
    // rpki::rrdp::Hash::from_data: the SHA-256 of the bytes
    #[verifier::external_body]
    pub fn from_data(data: &[u8]) -> (r: RrdpHash) ensures r == sha256(data@) { unimplemented!() }
    #[verifier::external_body] pub fn as_slice(&self) -> (r: &[u8]) { unimplemented!() }
}

// ---- the local archive of one repository: a map from URI to content plus a state record.
// ASSUMED contracts: utils::archive::Archive behaves as a map (C26) and the thin wrappers
// in collector/rrdp/archive.rs (update_object/delete_object compare the stored content's
// SHA-256 with the given hash before touching the object).
#[verifier::external_body] pub struct RrdpArchive { _opaque: () }
#[verifier::external_body] pub struct SnapshotRrdpArchive { _opaque: () }
impl RrdpArchive {
    pub uninterp spec fn objects(&self) -> Map<RsyncUri, Seq<u8>>;
    pub uninterp spec fn path_spec(&self) -> PathBuf;
    uninterp spec fn state(&self) -> RepositoryState;

    #[verifier::external_body]
    fn publish_object(&mut self, uri: &RsyncUri, content: &[u8]) -> (r: Result<(), PublishError>)
        ensures
            final(self).state() == old(self).state(), final(self).path_spec() == old(self).path_spec(),
            match r {
                Ok(()) => !old(self).objects().contains_key(*uri)
                          && final(self).objects() == old(self).objects().insert(*uri, content@),
                Err(PublishError::AlreadyExists) => old(self).objects().contains_key(*uri)
                          && final(self).objects() == old(self).objects(),
                Err(PublishError::Archive(_)) => true,
            },
    { unimplemented!() }

    #[verifier::external_body]
    fn update_object(&mut self, uri: &RsyncUri, hash: RrdpHash, content: &[u8]) -> (r: Result<(), AccessError>)
        ensures
            final(self).state() == old(self).state(), final(self).path_spec() == old(self).path_spec(),
            match r {
                Ok(()) => old(self).objects().contains_key(*uri)
                          && sha256(old(self).objects()[*uri]) == hash
                          && final(self).objects() == old(self).objects().insert(*uri, content@),
                Err(AccessError::NotFound) => !old(self).objects().contains_key(*uri)
                          && final(self).objects() == old(self).objects(),
                Err(AccessError::HashMismatch) => old(self).objects().contains_key(*uri)
                          && sha256(old(self).objects()[*uri]) != hash
                          && final(self).objects() == old(self).objects(),
                Err(AccessError::Archive(_)) => true,
            },
    { unimplemented!() }

    #[verifier::external_body]
    fn delete_object(&mut self, uri: &RsyncUri, hash: RrdpHash) -> (r: Result<(), AccessError>)
        ensures
            final(self).state() == old(self).state(), final(self).path_spec() == old(self).path_spec(),
            match r {
                Ok(()) => old(self).objects().contains_key(*uri)
                          && sha256(old(self).objects()[*uri]) == hash
                          && final(self).objects() == old(self).objects().remove(*uri),
                Err(AccessError::NotFound) => !old(self).objects().contains_key(*uri)
                          && final(self).objects() == old(self).objects(),
                Err(AccessError::HashMismatch) => old(self).objects().contains_key(*uri)
                          && sha256(old(self).objects()[*uri]) != hash
                          && final(self).objects() == old(self).objects(),
                Err(AccessError::Archive(_)) => true,
            },
    { unimplemented!() }
}

// ---- reading a published object through the size limiter (C38 covers the limit itself)
impl<'a> ObjectReader<'a> {
    // the complete content of the object element being read
    pub uninterp spec fn content_spec(&self) -> Seq<u8>;
}
#[verifier::external_body] #[verifier::reject_recursive_types(R)] pub struct LimitedDataRead<'a, R> { _p: &'a (), _r: R }
impl<'a, 'b, 'c> LimitedDataRead<'a, &'b mut ObjectReader<'c>> {
    pub uninterp spec fn source_content(&self) -> Seq<u8>;
    #[verifier::external_body]
    pub fn new<U>(reader: &'b mut ObjectReader<'c>, uri: &'a U, max_size: Option<u64>) -> (r: Self)
        ensures r.source_content() == old(reader).content_spec(),
    { unimplemented!() }
    #[verifier::external_body]
    pub fn read_all(self) -> (r: Result<Vec<u8>, LimitedDataReadError>)
        ensures r matches Ok(v) ==> v@ == self.source_content(),
    { unimplemented!() }
}

// ---- HTTP
#[verifier::external_body] pub struct HttpResponse { _opaque: () }
impl HttpResponse {
    pub uninterp spec fn status_spec(&self) -> StatusCode;
    #[verifier::external_body]
    pub fn status(&self) -> (r: StatusCode) ensures r == self.status_spec() { unimplemented!() }
}
impl HttpClient {
    #[verifier::external_body]
    pub fn response(&self, uri: &Https) -> (r: Result<HttpResponse, ReqwestError>) { unimplemented!() }
}
impl DeltaInfo {
    #[verifier::external_body]
    pub fn uri(&self) -> (r: &Https) { unimplemented!() }
}

// ---- std::io::BufReader and the hashing reader (collector/rrdp/update.rs HashRead, ASSUMED:
// it feeds every byte it hands out into a SHA-256 context; verify_hash compares the digest)
#[verifier::external_body] #[verifier::reject_recursive_types(R)] pub struct BufReader<R> { _r: R }
impl<R> BufReader<R> {
    pub uninterp spec fn inner_spec(&self) -> R;
    #[verifier::external_body]
    pub fn new(inner: R) -> (r: Self) ensures r.inner_spec() == inner { unimplemented!() }
    #[verifier::external_body]
    pub fn into_inner(self) -> (r: R) ensures r == self.inner_spec() { unimplemented!() }
}
#[verifier::external_body] #[verifier::reject_recursive_types(R)] pub struct HashRead<R> { _r: R }
impl<R> HashRead<R> {
    // all bytes read through this reader so far
    pub uninterp spec fn consumed_spec(&self) -> Seq<u8>;
    #[verifier::external_body]
    pub fn new(reader: R) -> (r: Self) { unimplemented!() }
    #[verifier::external_body]
    fn verify_hash(self, expected: RrdpHash) -> (r: Result<(), HashMismatch>)
        ensures r is Ok <==> sha256(self.consumed_spec()) == expected,
    { unimplemented!() }
}

// ---- rpki::rrdp::ProcessDelta::process (provided trait method), ASSUMED:
// it parses the bytes read through `reader` as a delta file f, calls `meta(f.session, f.serial)`
// once, then `publish`/`withdraw` once per element in document order, stops at the first
// error, and returns Ok only if the file is well-formed and every call returned Ok. The
// contract below is that description instantiated with the contracts PROVED in this unit for
// DeltaUpdate::{meta, publish, withdraw} (meta accepts exactly `delta_meta_ok`; an accepted
// element transforms (objects, seen) by `apply_elem`).
pub uninterp spec fn parse_delta(bytes: Seq<u8>) -> DeltaFile;
impl<'a> DeltaUpdate<'a> {
    #[verifier::external_body]
    fn process(&mut self, reader: &mut BufReader<HashRead<HttpResponse>>) -> (r: Result<(), DeltaError>)
        ensures
            final(self).session_id == old(self).session_id, final(self).info == old(self).info,
            final(self).collector == old(self).collector,
            final(self).archive.state() == old(self).archive.state(),
            final(self).archive.path_spec() == old(self).archive.path_spec(),
            // the borrowed archive and metrics are the same objects afterwards
            *final(final(self).archive) == *final(old(self).archive),
            *final(final(self).metrics) == *final(old(self).metrics),
            r is Ok ==> ({
                let f = parse_delta(final(reader).inner_spec().consumed_spec());
                &&& delta_meta_ok(old(self).session_id, old(self).info, f.session, f.serial)
                &&& apply_all(old(self).archive.objects(), old(self).seen@, f.elements)
                        == Some((final(self).archive.objects(), final(self).seen@))
            }),
    { unimplemented!() }
}

// ---- more of the archive
// A monotone ghost fact: "at some point the archive file at `path` held exactly `objs` and was
// given the state record `st`" (produced only by update_state).
uninterp spec fn archive_committed(path: PathBuf, objs: Map<RsyncUri, Seq<u8>>, st: RepositoryState) -> bool;
// "The object map `objs` is the content the server published for (session, serial)" -- as far
// as this verification can know it: true of a copy whose state record says so (the archive's
// invariant over runs, kept by the precondition of update_state/publish_state below) and carried
// from serial s to s+1 by one completely applied, hash-checked delta for serial s+1 (ASSUMED axiom:
// this is the paper step "the delta file with the listed SHA-256 is the server's change set for
// its serial" made explicit).
pub uninterp spec fn serial_reached(objs: Map<RsyncUri, Seq<u8>>, session: Uuid, serial: u64) -> bool;
pub broadcast axiom fn axiom_delta_advances_serial(before: Map<RsyncUri, Seq<u8>>, after: Map<RsyncUri, Seq<u8>>,
                                                   session: Uuid, s: u64, info: &DeltaInfo)
    ensures
        (#[trigger] serial_reached(before, session, s) && #[trigger] delta_applied(before, after, session, info)
            && info.serial_spec() == s + 1) ==> serial_reached(after, session, info.serial_spec());
impl RrdpArchive {
    // C25 ("state written last"): a state record may only be written onto an object map that HAS
    // REACHED the record's session and serial -- never a record that runs ahead of the content.
    #[verifier::external_body]
    fn update_state(&mut self, state: &RepositoryState) -> (r: Result<(), RunFailed>)
        requires serial_reached(old(self).objects(), state.session, state.serial),
        ensures
            final(self).path_spec() == old(self).path_spec(),
            final(self).objects() == old(self).objects(),
            r is Ok ==> final(self).state() == *state
                        && archive_committed(old(self).path_spec(), old(self).objects(), *state),
            r is Err ==> local_archive_fault(old(self).path_spec()),
    { unimplemented!() }
}

// ---- rpki::rrdp::DeltaListError and the rest of NotificationFile / Notification
pub enum DeltaListError { Oversized }
impl NotificationFile {
    pub uninterp spec fn delta_status_spec(&self) -> Result<(), DeltaListError>;
    #[verifier::external_body]
    pub fn delta_status(&self) -> (r: Result<(), DeltaListError>) ensures r == self.delta_status_spec() { unimplemented!() }
}
impl Notification {
    // ASSUMED (collector/rrdp/update.rs, not verified here: it collects into a HashMap and reads
    // the clock): the state record built from a notification carries its URI, session and serial.
    #[verifier::external_body]
    fn to_repository_state(&self, fallback: FallbackTime) -> (r: RepositoryState)
        ensures r.session == self.content.session_spec(), r.serial == self.content.serial_spec(),
                r.rpki_notify == self.uri,
                // the record of a real update: updated now, best-before freshly drawn from now
                is_now(r.updated_ts), fresh_draw(fallback, r.best_before_ts),
    { unimplemented!() }
}

// ---- clock, misc
#[verifier::external_body] pub struct SystemTime { _opaque: () }
impl SystemTime {
    #[verifier::external_body] pub fn now() -> SystemTime { unimplemented!() }
    #[verifier::external_body] pub fn duration_since(&self, earlier: SystemTime) -> Result<Duration, SystemTimeError> { unimplemented!() }
}
// Time as Unix timestamps. Ghost predicates (produced only by the `ensures` below):
//   is_now(t)            t is a reading of the clock taken during this call
//   fresh_draw(fb, t)    t is a best-before time freshly drawn for the fallback window `fb`, counted from
//                        the clock reading taken during this call (now + a random duration in [min, max))
pub uninterp spec fn is_now(t: i64) -> bool;
pub uninterp spec fn fresh_draw(fb: FallbackTime, t: i64) -> bool;
// whether a best-before timestamp has passed at the clock reading taken in this call / its time value
pub uninterp spec fn ts_expired(best_before_ts: i64) -> bool;
pub uninterp spec fn ts_time(ts: i64) -> Option<DateTime<Utc>>;
impl Utc {
    #[verifier::external_body]
    pub fn now() -> (r: DateTime<Utc>) ensures is_now(r.timestamp_spec()) { unimplemented!() }
}
impl<T> DateTime<T> {
    pub uninterp spec fn timestamp_spec(&self) -> i64;
    #[verifier::external_body] pub fn timestamp(&self) -> (r: i64) ensures r == self.timestamp_spec() { unimplemented!() }
}
impl FallbackTime {
    #[verifier::external_body]
    pub fn best_before(self) -> (r: DateTime<Utc>) ensures fresh_draw(self, r.timestamp_spec()) { unimplemented!() }
}
impl RepositoryState {
    // the best-before time of the copy as a timestamp (None: the stored number is not a valid time)
    // both are functions of the stored best_before_ts field alone
    spec fn best_before_spec(&self) -> Option<DateTime<Utc>> { ts_time(self.best_before_ts) }
    // whether the best-before time has passed AT THE CLOCK READING TAKEN IN THIS CALL (is_expired reads
    // the clock once; "if in doubt" -- no valid best-before time -- the copy counts as expired)
    spec fn expired_now(&self) -> bool { ts_expired(self.best_before_ts) }
    #[verifier::external_body]
    fn is_expired(&self) -> (r: bool)
        ensures r == self.expired_now(), self.best_before_spec() is None ==> r,
    { unimplemented!() }
    #[verifier::external_body]
    fn best_before(&self) -> (r: Option<DateTime<Utc>>) ensures r == self.best_before_spec() { unimplemented!() }
}
#[verifier::external_body] pub struct ReadRepository { _opaque: () }
#[verifier::external_body] pub struct Repository { _opaque: () }
impl Repository {
    pub uninterp spec fn path_spec(&self) -> PathBuf;
    #[verifier::external_body]
    pub fn new(path: Arc<PathBuf>) -> (r: Repository) ensures r.path_spec() == *path { unimplemented!() }
}
impl Clone for Https {
    #[verifier::external_body]
    fn clone(&self) -> (r: Self) ensures r == *self { unimplemented!() }
}

// ---- opening the local copy
impl RrdpArchive {
    #[verifier::external_body]
    fn try_open(path: Arc<PathBuf>) -> (r: Result<Option<RrdpArchive>, RunFailed>)
        ensures r matches Ok(Some(a)) ==> a.path_spec() == *path,
                r is Err ==> local_archive_fault(*path),
                // ghost fact: there is no (usable) local copy at `path` -- none at all, or a corrupt one that
                // try_open has deleted
                !(r matches Ok(Some(_))) ==> no_usable_copy(*path),
    { unimplemented!() }
    #[verifier::external_body]
    fn load_state(&self) -> (r: Result<RepositoryState, RunFailed>)
        // archive invariant: the stored record describes the stored content
        ensures r matches Ok(s) ==> s == self.state() && serial_reached(self.objects(), s.session, s.serial),
                r is Err ==> local_archive_fault(self.path_spec()),
    { unimplemented!() }
}

// ---- fetching the notification file (HTTP + XML parsing, ASSUMED)
// Monotone ghost facts: "a 304 Not Modified / this notification file was received for `uri`".
uninterp spec fn not_modified_received(uri: Https) -> bool;
uninterp spec fn notification_received(uri: Https, n: Notification) -> bool;
uninterp spec fn notification_failed(uri: Https) -> bool;
pub uninterp spec fn no_usable_copy(path: PathBuf) -> bool;
impl Notification {
    #[verifier::external_body]
    fn get(http: &HttpClient, uri: &Https, state: Option<&RepositoryState>, status: &mut HttpStatus,
           delta_list_limit: usize, log: &mut LogBookWriter) -> (r: Result<Option<Notification>, Failed>)
        ensures
            r matches Ok(None) ==> not_modified_received(*uri),
            r matches Ok(Some(n)) ==> notification_received(*uri, n),
            r is Err ==> notification_failed(*uri),
    { unimplemented!() }
}

// ---- RepositoryUpdate::snapshot_update (collector/rrdp/base.rs), ASSUMED, not verified here:
// Monotone ghost fact "the archive file at `path` was replaced by one built from a snapshot file
// that was accepted for this session and serial (SnapshotUpdate::try_update returned Ok)".
uninterp spec fn snapshot_installed(path: PathBuf, session: Uuid, serial: u64) -> bool;
// ... resp. "the snapshot update for the archive at `path` failed (a fault of that repository)"
uninterp spec fn snapshot_failed(path: PathBuf) -> bool;
impl<'a> RepositoryUpdate<'a> {
    #[verifier::external_body]
    fn snapshot_update(&mut self, notify: &Notification) -> (r: Result<bool, RunFailed>)
        ensures
            final(self).collector == old(self).collector, final(self).path == old(self).path,
            final(self).rpki_notify == old(self).rpki_notify,
            r matches Ok(true) ==> snapshot_installed(*old(self).path, notify.content.session_spec(), notify.content.serial_spec()),
            // by reading (base.rs snapshot_update: `SnapshotError::RunFailed(err) => Err(err)`, every other
            // SnapshotError => Ok(false); temp file / remove / rename failures are fatal): with the contract
            // PROVED for SnapshotUpdate::try_update an Err comes from a local file fault only
            r is Err ==> exists|p: PathBuf| #[trigger] local_archive_fault(p),
            r matches Ok(false) ==> snapshot_failed(*old(self).path),
    { unimplemented!() }
}

// ---- further API of the environment types that collector/rrdp/{base,update}.rs use (declared so
// that a change of the extracted functions to one of them is verified rather than rejected)
#[verifier::external_body] pub struct UriAndHash { _opaque: () }
impl UriAndHash {
    pub uninterp spec fn hash_spec(&self) -> RrdpHash;
    #[verifier::external_body] pub fn uri(&self) -> (r: &Https) { unimplemented!() }
    #[verifier::external_body] pub fn hash(&self) -> (r: RrdpHash) ensures r == self.hash_spec() { unimplemented!() }
}
impl NotificationFile {
    #[verifier::external_body] pub fn snapshot(&self) -> (r: &UriAndHash) { unimplemented!() }
    // sorts the delta list by serial; session and serial are untouched
    #[verifier::external_body]
    pub fn sort_deltas(&mut self)
        ensures final(self).session_spec() == old(self).session_spec(), final(self).serial_spec() == old(self).serial_spec(),
                final(self).deltas_spec().len() == old(self).deltas_spec().len(),
    { unimplemented!() }
    #[verifier::external_body] pub fn has_matching_origins(&self, uri: &Https) -> bool { unimplemented!() }
}
impl HttpResponse {
    #[verifier::external_body] pub fn etag(&self) -> Option<Bytes> { unimplemented!() }
    #[verifier::external_body] pub fn last_modified(&self) -> Option<DateTime<Utc>> { unimplemented!() }
    #[verifier::external_body] pub fn content_length(&self) -> Option<u64> { unimplemented!() }
}
impl HttpClient {
    #[verifier::external_body]
    pub fn conditional_response(&self, uri: &Https, etag: Option<&Bytes>, last_modified: Option<DateTime<Utc>>)
        -> (r: Result<HttpResponse, ReqwestError>)
    { unimplemented!() }
}
impl Clone for Bytes {
    #[verifier::external_body] fn clone(&self) -> (r: Self) ensures r == *self { unimplemented!() }
}
impl Clone for PathBuf {
    #[verifier::external_body] fn clone(&self) -> (r: Self) ensures r == *self { unimplemented!() }
}
impl RrdpArchive {
    #[verifier::external_body]
    fn open(path: Arc<PathBuf>) -> (r: Result<RrdpArchive, RunFailed>)
        ensures r matches Ok(a) ==> a.path_spec() == *path,
    { unimplemented!() }
    #[verifier::external_body]
    fn load_object(&self, uri: &RsyncUri) -> (r: Result<Option<Bytes>, RunFailed>) { unimplemented!() }
    // first write of the state record (a fresh archive); same effect on the model as update_state
    #[verifier::external_body]
    fn publish_state(&mut self, state: &RepositoryState) -> (r: Result<(), RunFailed>)
        requires serial_reached(old(self).objects(), state.session, state.serial),
        ensures
            final(self).path_spec() == old(self).path_spec(),
            final(self).objects() == old(self).objects(),
            r is Ok ==> final(self).state() == *state
                        && archive_committed(old(self).path_spec(), old(self).objects(), *state),
    { unimplemented!() }
}
// Monotone ghost fact: "an I/O or corruption error happened on the LOCAL archive file at `path`
// during this call" (produced only by the archive operations' error results below).
pub uninterp spec fn local_archive_fault(path: PathBuf) -> bool;

// The temporary archive a snapshot is unpacked into (append-only): same map model.
impl SnapshotRrdpArchive {
    pub uninterp spec fn objects(&self) -> Map<RsyncUri, Seq<u8>>;
    pub uninterp spec fn path_spec(&self) -> PathBuf;
    #[verifier::external_body]
    fn publish_object(&mut self, uri: &RsyncUri, content: &[u8]) -> (r: Result<(), PublishError>)
        ensures
            final(self).path_spec() == old(self).path_spec(),
            match r {
                Ok(()) => !old(self).objects().contains_key(*uri)
                          && final(self).objects() == old(self).objects().insert(*uri, content@),
                // a content fault of the served snapshot: the same URI published twice
                Err(PublishError::AlreadyExists) => old(self).objects().contains_key(*uri)
                          && final(self).objects() == old(self).objects(),
                // a local fault
                Err(PublishError::Archive(_)) => local_archive_fault(old(self).path_spec()),
            },
    { unimplemented!() }
    #[verifier::external_body]
    fn publish_state(&mut self, state: &RepositoryState) -> (r: Result<(), RunFailed>)
        ensures final(self).path_spec() == old(self).path_spec(), final(self).objects() == old(self).objects(),
                r is Err ==> local_archive_fault(old(self).path_spec()),
    { unimplemented!() }
    #[verifier::external_body]
    fn finalize(&mut self) -> (r: Result<(), RunFailed>)
        ensures final(self).path_spec() == old(self).path_spec(), final(self).objects() == old(self).objects(),
                r is Err ==> local_archive_fault(old(self).path_spec()),
    { unimplemented!() }
}

// rpki::rrdp::ProcessSnapshot::process (provided trait method), ASSUMED: it parses the bytes read
// through `reader`, calls `meta` once and `publish` once per element, stops at the first error and
// returns either that callback's error unchanged or a parse/read error converted with
// From<ProcessError> / From<io::Error> (both yield SnapshotError::Rrdp, see update.rs). Instantiated
// with the contracts PROVED here for SnapshotUpdate::{meta, publish}: meta never returns
// RunFailed, publish returns RunFailed only after a local archive fault.
impl<'a> SnapshotUpdate<'a> {
    #[verifier::external_body]
    fn process(&mut self, reader: &mut BufReader<HashRead<HttpResponse>>) -> (r: Result<(), SnapshotError>)
        ensures
            final(self).notify == old(self).notify, final(self).collector == old(self).collector,
            final(self).archive.path_spec() == old(self).archive.path_spec(),
            *final(final(self).archive) == *final(old(self).archive),
            *final(final(self).metrics) == *final(old(self).metrics),
            r matches Err(e) ==> (e is RunFailed ==> local_archive_fault(old(self).archive.path_spec())),
    { unimplemented!() }
}
impl<'a, 'b, 'c> LimitedDataRead<'a, &'b mut ObjectReader<'c>> { }

impl LogBookWriter {
    #[verifier::external_body] pub fn new(process_prefix: Option<FmtArgs>) -> LogBookWriter { unimplemented!() }
    #[verifier::external_body] pub fn error(&mut self, args: FmtArgs) { unimplemented!() }
    #[verifier::external_body] pub fn trace(&mut self, args: FmtArgs) { unimplemented!() }
    #[verifier::external_body] pub fn into_book(self) -> LogBook { unimplemented!() }
}
impl LogBook {
    #[verifier::external_body] pub fn is_empty(&self) -> bool { unimplemented!() }
}
impl RepositoryState {
    #[verifier::external_body] fn updated(&self) -> Option<DateTime<Utc>> { unimplemented!() }
    #[verifier::external_body] fn last_modified(&self) -> Option<DateTime<Utc>> { unimplemented!() }
}
impl Repository {
    #[verifier::external_body] fn read(&self) -> Result<Arc<ReadRepository>, RunFailed> { unimplemented!() }
}
impl RrdpRepositoryMetrics {
    #[verifier::external_body]
    fn new(notify_uri: Https) -> (r: RrdpRepositoryMetrics)
        ensures r.notify_uri == notify_uri, r.session is None, r.serial is None, r.snapshot_reason is None,
                r.payload_status is None, r.log_book is None,
    { unimplemented!() }
}
impl StatusCode {
    pub const NOT_FOUND: StatusCode = StatusCode(404);
    #[verifier::external_body] pub fn is_success(&self) -> (r: bool) ensures r == (200 <= self.0 < 300) { unimplemented!() }
    #[verifier::external_body] pub fn as_u16(&self) -> (r: u16) ensures r == self.0 { unimplemented!() }
}

// ---- std functions without a vstd specification (ASSUMED; their std definitions). Declared so
// that a change of the code to one of these combinators is verified instead of rejected.
pub assume_specification<T: Ord + core::marker::Destruct> [std::cmp::max] (a: T, b: T) -> (r: T)
    ensures <T as vstd::std_specs::cmp::OrdSpec>::obeys_cmp_spec() ==> r == (if vstd::std_specs::cmp::OrdSpec::cmp_spec(&a, &b) == std::cmp::Ordering::Greater { a } else { b });
pub assume_specification<T: Ord + core::marker::Destruct> [std::cmp::min] (a: T, b: T) -> (r: T)
    ensures <T as vstd::std_specs::cmp::OrdSpec>::obeys_cmp_spec() ==> r == (if vstd::std_specs::cmp::OrdSpec::cmp_spec(&a, &b) == std::cmp::Ordering::Greater { b } else { a });
pub assume_specification<T> [bool::then_some] (b: bool, t: T) -> (r: Option<T>)
    ensures r == (if b { Some(t) } else { None::<T> });
pub assume_specification<T, U> [Option::<T>::and] (a: Option<T>, b: Option<U>) -> (r: Option<U>)
    ensures r == (if a is Some { b } else { None::<U> });
pub assume_specification<T> [Option::<T>::or] (a: Option<T>, b: Option<T>) -> (r: Option<T>)
    ensures r == (if a is Some { a } else { b });
pub assume_specification<T> [Option::<T>::xor] (a: Option<T>, b: Option<T>) -> (r: Option<T>)
    ensures r == (if a is Some && b is None { a } else if a is None && b is Some { b } else { None::<T> });
pub assume_specification<T, U> [Option::<T>::zip] (a: Option<T>, b: Option<U>) -> (r: Option<(T, U)>)
    ensures r == (if a is Some && b is Some { Some((a->Some_0, b->Some_0)) } else { None::<(T, U)> });
pub assume_specification<T> [Option::<T>::replace] (a: &mut Option<T>, v: T) -> (r: Option<T>)
    ensures r == *old(a), *final(a) == Some(v);
pub assume_specification<T, F: FnOnce(T) -> bool> [Option::<T>::is_some_and] (a: Option<T>, f: F) -> (r: bool)
    requires a is Some ==> f.requires((a->Some_0,)),
    ensures a is None ==> !r, a is Some ==> f.ensures((a->Some_0,), r);
pub assume_specification<T, U, F: FnOnce(T) -> U> [Option::<T>::map_or] (a: Option<T>, default: U, f: F) -> (r: U)
    requires a is Some ==> f.requires((a->Some_0,)),
    ensures a is None ==> r == default, a is Some ==> f.ensures((a->Some_0,), r);
pub assume_specification<T, P: FnOnce(&T) -> bool> [Option::<T>::filter] (a: Option<T>, p: P) -> (r: Option<T>)
    requires a is Some ==> p.requires((&a->Some_0,)),
    ensures a is None ==> r is None, r is Some ==> r == a,
            a is Some ==> (p.ensures((&a->Some_0,), true) ==> r == a) && (p.ensures((&a->Some_0,), false) ==> r is None),
        // the predicate returned SOME boolean for the element, and the result follows it
        a is Some ==> exists|__b: bool| p.ensures((&a->Some_0,), __b) && r == (if __b { a } else { None::<T> });
pub assume_specification<T, E, U, F: FnOnce(T) -> Result<U, E>> [Result::<T, E>::and_then] (a: Result<T, E>, f: F) -> (r: Result<U, E>)
    requires a is Ok ==> f.requires((a->Ok_0,)),
    ensures a is Err ==> r == Err::<U, E>(a->Err_0), a is Ok ==> f.ensures((a->Ok_0,), r);
pub assume_specification<T, E, U> [Result::<T, E>::and] (a: Result<T, E>, b: Result<U, E>) -> (r: Result<U, E>)
    ensures r == (if a is Ok { b } else { Err::<U, E>(a->Err_0) });
pub assume_specification<T, E, F> [Result::<T, E>::or] (a: Result<T, E>, b: Result<T, F>) -> (r: Result<T, F>)
    ensures r == (if a is Ok { Ok::<T, F>(a->Ok_0) } else { b });
pub assume_specification<T, E, F: FnOnce(T) -> bool> [Result::<T, E>::is_ok_and] (a: Result<T, E>, f: F) -> (r: bool)
    requires a is Ok ==> f.requires((a->Ok_0,)),
    ensures a is Err ==> !r, a is Ok ==> f.ensures((a->Ok_0,), r);
pub assume_specification<T, E> [Result::<T, E>::unwrap_or] (a: Result<T, E>, default: T) -> (r: T)
    ensures r == (if a is Ok { a->Ok_0 } else { default });
pub assume_specification<T, E, F: FnOnce(E) -> T> [Result::<T, E>::unwrap_or_else] (a: Result<T, E>, f: F) -> (r: T)
    requires a is Err ==> f.requires((a->Err_0,)),
    ensures a is Ok ==> r == a->Ok_0, a is Err ==> f.ensures((a->Err_0,), r);

// std's reflexive `impl<T> From<T> for T` is the identity (ASSUMED for the one type it is used at:
// the `?` after a call that already returns SnapshotError).
pub axiom fn axiom_snapshot_error_from_self()
    ensures <SnapshotError as vstd::std_specs::convert::FromSpec<SnapshotError>>::obeys_from_spec(),
        forall|v: SnapshotError| #[trigger] <SnapshotError as vstd::std_specs::convert::FromSpec<SnapshotError>>::from_spec(v) == v;
