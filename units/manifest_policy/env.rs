// Environment of unit `manifest_policy`: opaque rpki / std / crate types and
// ASSUMED contracts of everything the three manifest validation functions
// call. Every check outcome is a ghost function of its inputs: rpki decides
// it, this unit only names it.

// ---- opaque types that only occur as field / parameter types
#[verifier::external_body] pub struct HttpsUri { _opaque: () }
#[verifier::external_body] pub struct TalUri { _opaque: () }
#[verifier::external_body] pub struct Tal { _opaque: () }
#[verifier::external_body] pub struct Cert { _opaque: () }
#[verifier::external_body] pub struct Validity { _opaque: () }
#[verifier::external_body] pub struct RouteOriginAttestation { _opaque: () }
#[verifier::external_body] pub struct AsProviderAttestation { _opaque: () }
#[verifier::external_body] pub struct Collector { _opaque: () }
#[verifier::external_body] pub struct Store { _opaque: () }
#[verifier::external_body] pub struct Metrics { _opaque: () }
#[verifier::external_body] pub struct CollectorRun<'a> { _p: &'a Collector }
#[verifier::external_body] pub struct StoreRun<'a> { _p: &'a Store }
#[verifier::external_body] pub struct PathBuf { _opaque: () }
#[verifier::external_body] pub struct AtomicBool { _opaque: () }
#[verifier::external_body] pub struct DecodeError { _opaque: () }
#[verifier::external_body] pub struct ValidationError { _opaque: () }
#[verifier::external_body] pub struct VerificationError { _opaque: () }
#[verifier::external_body] pub struct ManifestHashMismatch { _opaque: () }
#[verifier::external_body] pub struct FmtArgs { _opaque: () }
#[verifier::external_body] pub struct LogBookWriter { _opaque: () }
#[verifier::external_body] pub struct PublicKey { _opaque: () }
#[verifier::external_body] pub struct DigestAlgorithm { _opaque: () }
#[verifier::external_body] pub struct Serial { _opaque: () }

// ---- bytes::Bytes: content identity only
#[verifier::external_body] pub struct Bytes { _opaque: () }
impl Clone for Bytes {
    #[verifier::external_body]
    fn clone(&self) -> (r: Bytes) ensures r == *self, { unimplemented!() }
}
// `file == crl_name` (impl PartialEq<&str> for Bytes): byte-wise comparison, named only
pub uninterp spec fn bytes_eq_str(b: Bytes, s: Seq<char>) -> bool;
impl<'a> PartialEqSpecImpl<&'a str> for Bytes {
    open spec fn obeys_eq_spec() -> bool { true }
    open spec fn eq_spec(&self, other: &&'a str) -> bool { bytes_eq_str(*self, (*other)@) }
}
impl<'a> PartialEq<&'a str> for Bytes {
    #[verifier::external_body]
    fn eq(&self, other: &&'a str) -> bool { unimplemented!() }
}

// ---- rpki::uri::Rsync
#[verifier::external_body] pub struct RsyncUri { _opaque: () }
impl Clone for RsyncUri {
    #[verifier::external_body]
    fn clone(&self) -> (r: RsyncUri) ensures r == *self, { unimplemented!() }
}
impl RsyncUri {
    pub uninterp spec fn ends_with_spec(&self, ext: Seq<char>) -> bool;
    pub uninterp spec fn relative_to_spec(&self, other: &RsyncUri) -> Option<Seq<char>>;

    #[verifier::external_body]
    pub fn ends_with(&self, extension: &str) -> (r: bool)
        ensures r == self.ends_with_spec(extension@),
    { unimplemented!() }

    #[verifier::external_body]
    pub fn relative_to(&self, other: &RsyncUri) -> (r: Option<&str>)
        ensures match r { Some(s) => self.relative_to_spec(other) == Some(s@), None => self.relative_to_spec(other) is None },
    { unimplemented!() }
}

// ---- rpki::repository::x509::Time. ASSUMED: derived Ord over a UTC time
// stamp is a total order, represented by an integer value. `now()` reads the
// clock: every value it returns is recorded by the ghost fact clock_reading.
#[derive(Clone, Copy)]
#[verifier::external_body] pub struct Time { _opaque: () }
impl Time { pub uninterp spec fn val(&self) -> int; }
pub uninterp spec fn clock_reading(t: Time) -> bool;

pub open spec fn int_cmp(a: int, b: int) -> Ordering {
    if a < b { Ordering::Less } else if a == b { Ordering::Equal } else { Ordering::Greater }
}
impl PartialEqSpecImpl for Time {
    open spec fn obeys_eq_spec() -> bool { true }
    open spec fn eq_spec(&self, other: &Time) -> bool { self.val() == other.val() }
}
impl PartialEq for Time {
    #[verifier::external_body]
    fn eq(&self, other: &Self) -> bool { unimplemented!() }
}
impl PartialOrdSpecImpl for Time {
    open spec fn obeys_partial_cmp_spec() -> bool { true }
    open spec fn partial_cmp_spec(&self, other: &Time) -> Option<Ordering> { Some(int_cmp(self.val(), other.val())) }
}
impl PartialOrd for Time {
    #[verifier::external_body]
    fn partial_cmp(&self, other: &Time) -> Option<Ordering> { unimplemented!() }
}
impl Time {
    #[verifier::external_body]
    pub fn now() -> (r: Time) ensures clock_reading(r), { unimplemented!() }
}

// ---- rpki::repository::cert::ResourceCert (methods of Cert reached through Deref)
#[verifier::external_body] pub struct ResourceCert { _opaque: () }
impl ResourceCert {
    pub uninterp spec fn crl_uri_spec(&self) -> Option<RsyncUri>;
    pub uninterp spec fn serial_spec(&self) -> Serial;
    pub uninterp spec fn key_spec(&self) -> PublicKey;

    #[verifier::external_body]
    pub fn crl_uri(&self) -> (r: Option<&RsyncUri>)
        ensures match r { Some(u) => self.crl_uri_spec() == Some(*u), None => self.crl_uri_spec() is None },
    { unimplemented!() }
    #[verifier::external_body]
    pub fn serial_number(&self) -> (r: Serial) ensures r == self.serial_spec(), { unimplemented!() }
    #[verifier::external_body]
    pub fn subject_public_key_info(&self) -> (r: &PublicKey) ensures *r == self.key_spec(), { unimplemented!() }
}

// ---- rpki::repository::manifest
#[verifier::external_body] pub struct ManifestContent { _opaque: () }
#[verifier::external_body] pub struct Manifest { _opaque: () }
#[verifier::external_body] pub struct FileAndHash { _opaque: () }
#[verifier::external_body] pub struct FileListIter { _opaque: () }
#[verifier::external_body] pub struct ManifestHash { _opaque: () }

pub uninterp spec fn manifest_decode_spec(bytes: Bytes, strict: bool) -> Result<Manifest, DecodeError>;
// whether the digest of `content` under `alg` equals `hash`
pub uninterp spec fn hash_ok(hash: Bytes, alg: DigestAlgorithm, content: Bytes) -> bool;

impl Manifest {
    // signature / certificate validation of the manifest against the issuing CA
    // certificate (includes the validity period check at the time of the call)
    pub uninterp spec fn validate_spec(self, cert: &ResourceCert, strict: bool)
        -> Result<(ResourceCert, ManifestContent), ValidationError>;

    #[verifier::external_body]
    pub fn decode(source: Bytes, strict: bool) -> (r: Result<Manifest, DecodeError>)
        ensures r == manifest_decode_spec(source, strict),
    { unimplemented!() }

    #[verifier::external_body]
    pub fn validate(self, cert: &ResourceCert, strict: bool)
        -> (r: Result<(ResourceCert, ManifestContent), ValidationError>)
        ensures r == self.validate_spec(cert, strict),
    { unimplemented!() }
}

impl ManifestContent {
    pub uninterp spec fn this_update_spec(&self) -> Time;
    pub uninterp spec fn stale_spec(&self) -> bool;
    pub uninterp spec fn items_spec(&self) -> Seq<FileAndHash>;
    pub uninterp spec fn alg_spec(&self) -> DigestAlgorithm;
    pub uninterp spec fn len_spec(&self) -> usize;

    #[verifier::external_body]
    pub fn this_update(&self) -> (r: Time) ensures r == self.this_update_spec(), { unimplemented!() }
    #[verifier::external_body]
    pub fn is_stale(&self) -> (r: bool) ensures r == self.stale_spec(), { unimplemented!() }
    #[verifier::external_body]
    pub fn file_hash_alg(&self) -> (r: DigestAlgorithm) ensures r == self.alg_spec(), { unimplemented!() }
    #[verifier::external_body]
    pub fn len(&self) -> (r: usize) ensures r == self.len_spec(), { unimplemented!() }
    #[verifier::external_body]
    pub fn iter(&self) -> (r: FileListIter)
        ensures r.remaining() == self.items_spec(),
    { unimplemented!() }
}

// the file list iterator: finite, yields items_spec() in order
pub uninterp spec fn file_list_remaining(it: &FileListIter) -> Seq<FileAndHash>;
pub uninterp spec fn file_list_count(it: &FileListIter) -> nat;
impl Iterator for FileListIter {
    type Item = FileAndHash;
    #[verifier::external_body]
    fn next(&mut self) -> Option<FileAndHash> { unimplemented!() }
}
impl vstd::std_specs::iter::IteratorSpecImpl for FileListIter {
    open spec fn obeys_prophetic_iter_laws(&self) -> bool { true }
    #[verifier::prophetic]
    open spec fn remaining(&self) -> Seq<FileAndHash> { file_list_remaining(self) }
    open spec fn decrease(&self) -> Option<nat> { Some(file_list_count(self)) }
    #[verifier::prophetic]
    open spec fn will_return_none(&self) -> bool { true }
    open spec fn peek(&self, index: int) -> Option<FileAndHash> { None }
}

impl FileAndHash {
    pub uninterp spec fn file_spec(&self) -> Bytes;
    pub uninterp spec fn hash_spec(&self) -> Bytes;

    #[verifier::external_body]
    pub fn into_pair(self) -> (r: (Bytes, Bytes))
        ensures r.0 == self.file_spec(), r.1 == self.hash_spec(),
    { unimplemented!() }
}

impl ManifestHash {
    pub uninterp spec fn hash_spec(&self) -> Bytes;
    pub uninterp spec fn alg_spec(&self) -> DigestAlgorithm;

    #[verifier::external_body]
    pub fn new(hash: Bytes, algorithm: DigestAlgorithm) -> (r: ManifestHash)
        ensures r.hash_spec() == hash, r.alg_spec() == algorithm,
    { unimplemented!() }

    #[verifier::external_body]
    pub fn verify(&self, t: &Bytes) -> (r: Result<(), ManifestHashMismatch>)
        ensures r is Ok <==> hash_ok(self.hash_spec(), self.alg_spec(), *t),
    { unimplemented!() }
}

// ---- rpki::repository::crl::Crl
#[verifier::external_body] pub struct Crl { _opaque: () }
pub uninterp spec fn crl_decode_spec(bytes: Bytes) -> Result<Crl, DecodeError>;

// cache_serials() only builds a lookup set: the CRL's answers stay the same
pub open spec fn same_crl(a: Crl, b: Crl) -> bool {
    &&& a.stale_spec() == b.stale_spec()
    &&& forall|k: PublicKey| a.sig_ok_spec(k) == b.sig_ok_spec(k)
    &&& forall|s: Serial| a.contains_spec(s) == b.contains_spec(s)
}

impl Crl {
    pub uninterp spec fn stale_spec(&self) -> bool;
    pub uninterp spec fn sig_ok_spec(&self, key: PublicKey) -> bool;
    pub uninterp spec fn contains_spec(&self, serial: Serial) -> bool;

    #[verifier::external_body]
    pub fn decode(source: Bytes) -> (r: Result<Crl, DecodeError>)
        ensures r == crl_decode_spec(source),
    { unimplemented!() }
    #[verifier::external_body]
    pub fn verify_signature(&self, public_key: &PublicKey) -> (r: Result<(), VerificationError>)
        ensures r is Ok <==> self.sig_ok_spec(*public_key),
    { unimplemented!() }
    #[verifier::external_body]
    pub fn is_stale(&self) -> (r: bool) ensures r == self.stale_spec(), { unimplemented!() }
    #[verifier::external_body]
    pub fn cache_serials(&mut self) ensures same_crl(*final(self), *old(self)), { unimplemented!() }
    #[verifier::external_body]
    pub fn contains(&self, serial: Serial) -> (r: bool) ensures r == self.contains_spec(serial), { unimplemented!() }
}

// ---- collector::Repository: what loading an object yields in this run
#[verifier::external_body] pub struct CollRepository<'a> { _p: &'a Collector }
impl<'a> CollRepository<'a> {
    pub uninterp spec fn load_spec(&self, uri: &RsyncUri) -> Result<Option<Bytes>, RunFailed>;

    #[verifier::external_body]
    pub fn load_object(&self, uri: &RsyncUri) -> (r: Result<Option<Bytes>, RunFailed>)
        ensures r == self.load_spec(uri),
    { unimplemented!() }
}

// ---- log / formatting (R2): content dropped, no effect on verified state
#[verifier::external_body]
pub fn fmt_opaque() -> (r: FmtArgs) { unimplemented!() }

impl LogBookWriter {
    #[verifier::external_body]
    pub fn warn(&mut self, args: FmtArgs) { unimplemented!() }
}

// ---- derived impls of extracted types (attributes are dropped by extraction)
impl Default for PublicationMetrics {
    #[verifier::external_body]
    fn default() -> (r: PublicationMetrics) { unimplemented!() }
}
