// Environment of unit `manifest_policy`. No unit specific assumptions beyond the
// shared engine.rs API: every call of the three manifest validation functions
// is declared there.
// ======================================================================
// Shared part (identical in units cacert, newer, manifest_policy,
// stored_site): the rpki / std / crate API that src/engine.rs uses, as opaque
// types with ASSUMED contracts. Every check outcome is a ghost function of
// its inputs: rpki decides it, the units only name it. Everything engine.rs
// calls on these types is declared (also what the extracted functions of a
// particular unit do not call) so that a change which starts using another
// accessor is verified instead of being rejected by the compiler.
// ======================================================================

// ---- opaque types that only occur as field / parameter types
#[verifier::external_body] pub struct Tal { _opaque: () }
#[verifier::external_body] pub struct TalInfo { _opaque: () }
#[verifier::external_body] pub struct RouteOriginAttestation { _opaque: () }
#[verifier::external_body] pub struct AsProviderAttestation { _opaque: () }
#[verifier::external_body] pub struct Collector { _opaque: () }
#[verifier::external_body] pub struct Store { _opaque: () }
#[verifier::external_body] pub struct Metrics { _opaque: () }
#[verifier::external_body] pub struct RunMetrics { _opaque: () }
#[verifier::external_body] pub struct CollectorRun<'a> { _p: &'a Collector }
#[verifier::external_body] pub struct StoreRun<'a> { _p: &'a Store }
#[verifier::external_body] pub struct PathBuf { _opaque: () }
#[verifier::external_body] pub struct AtomicBool { _opaque: () }
#[verifier::external_body] pub struct DecodeError { _opaque: () }
#[verifier::external_body] pub struct ValidationError { _opaque: () }
#[verifier::external_body] pub struct VerificationError { _opaque: () }
#[verifier::external_body] pub struct ManifestHashMismatch { _opaque: () }
#[verifier::external_body] pub struct UriError { _opaque: () }
#[verifier::external_body] pub struct FmtArgs { _opaque: () }
#[verifier::external_body] pub struct LogBook { _opaque: () }
#[verifier::external_body] pub struct LogBookWriter { _opaque: () }
#[verifier::external_body] pub struct PublicKey { _opaque: () }
#[verifier::external_body] pub struct DigestAlgorithm { _opaque: () }

// rpki::repository::tal::TalUri and cert::KeyUsage (declared here: the types
// live in the rpki crate; engine.rs constructs / compares their variants)
pub enum TalUri {
    Rsync(RsyncUri),
    Https(HttpsUri),
}
pub enum KeyUsage { Ca, Ee }
impl PartialEqSpecImpl for KeyUsage {
    open spec fn obeys_eq_spec() -> bool { true }
    open spec fn eq_spec(&self, other: &KeyUsage) -> bool { *self == *other }
}
impl PartialEq for KeyUsage {
    #[verifier::external_body]
    fn eq(&self, other: &Self) -> bool { unimplemented!() }
}

// ---- bytes::Bytes: content identity only
#[verifier::external_body] pub struct Bytes { _opaque: () }
impl Clone for Bytes {
    #[verifier::external_body]
    fn clone(&self) -> (r: Bytes) ensures r == *self, { unimplemented!() }
}
pub uninterp spec fn bytes_eq(a: Bytes, b: Bytes) -> bool;
impl PartialEqSpecImpl for Bytes {
    open spec fn obeys_eq_spec() -> bool { true }
    open spec fn eq_spec(&self, other: &Bytes) -> bool { bytes_eq(*self, *other) }
}
impl PartialEq for Bytes {
    #[verifier::external_body]
    fn eq(&self, other: &Self) -> bool { unimplemented!() }
}
// `file == crl_name` (impl PartialEq<&str> for Bytes): byte-wise comparison, named only
pub uninterp spec fn bytes_eq_str(b: Bytes, s: Seq<char>) -> bool;
impl<'a> PartialEqSpecImpl<&'a str> for Bytes {
    open spec fn obeys_eq_spec() -> bool { true }
    open spec fn eq_spec(&self, other: &&'a str) -> bool { bytes_eq_str(*self, (*other)@) }
}
impl<'a> PartialEq<&'a str> for Bytes {
    #[verifier::external_body]
    fn eq(&self, other: &&'a str) -> bool { unimplemented!() }
}
impl Bytes {
    #[verifier::external_body]
    pub fn len(&self) -> (r: usize) { unimplemented!() }
    #[verifier::external_body]
    pub fn is_empty(&self) -> (r: bool) { unimplemented!() }
}

// ---- rpki::uri::{Rsync, Https}
#[verifier::external_body] pub struct RsyncUri { _opaque: () }
#[verifier::external_body] pub struct HttpsUri { _opaque: () }
impl Clone for RsyncUri {
    #[verifier::external_body]
    fn clone(&self) -> (r: RsyncUri) ensures r == *self, { unimplemented!() }
}
impl Clone for HttpsUri {
    #[verifier::external_body]
    fn clone(&self) -> (r: HttpsUri) ensures r == *self, { unimplemented!() }
}
pub uninterp spec fn uri_eq(a: RsyncUri, b: RsyncUri) -> bool;
impl PartialEqSpecImpl for RsyncUri {
    open spec fn obeys_eq_spec() -> bool { true }
    open spec fn eq_spec(&self, other: &RsyncUri) -> bool { uri_eq(*self, *other) }
}
impl PartialEq for RsyncUri {
    #[verifier::external_body]
    fn eq(&self, other: &Self) -> bool { unimplemented!() }
}
pub uninterp spec fn https_eq(a: HttpsUri, b: HttpsUri) -> bool;
impl PartialEqSpecImpl for HttpsUri {
    open spec fn obeys_eq_spec() -> bool { true }
    open spec fn eq_spec(&self, other: &HttpsUri) -> bool { https_eq(*self, *other) }
}
impl PartialEq for HttpsUri {
    #[verifier::external_body]
    fn eq(&self, other: &Self) -> bool { unimplemented!() }
}
impl RsyncUri {
    pub uninterp spec fn ends_with_spec(&self, ext: Seq<char>) -> bool;
    pub uninterp spec fn relative_to_spec(&self, other: &RsyncUri) -> Option<Seq<char>>;

    #[verifier::external_body]
    pub fn ends_with(&self, extension: &str) -> (r: bool)
        ensures r == self.ends_with_spec(extension@),
    { unimplemented!() }
    #[verifier::external_body]
    pub fn relative_to(&self, other: &RsyncUri) -> (r: Option<&str>)
        ensures match r { Some(s) => self.relative_to_spec(other) == Some(s@), None => self.relative_to_spec(other) is None },
    { unimplemented!() }
    #[verifier::external_body]
    pub fn join(&self, path: &[u8]) -> (r: Result<RsyncUri, UriError>) { unimplemented!() }
    #[verifier::external_body]
    pub fn module(&self) -> (r: &str) { unimplemented!() }
    #[verifier::external_body]
    pub fn path(&self) -> (r: &str) { unimplemented!() }
    #[verifier::external_body]
    pub fn parent(&self) -> (r: Option<RsyncUri>) { unimplemented!() }
}

// ---- rpki::repository::x509::{Serial, Time, Validity}: derived Ord over a 20
// octet big-endian integer / a UTC time stamp. ASSUMED: total orders,
// represented by an injective integer value. `Time::now()` reads the clock:
// every value it returns is recorded by the ghost fact clock_reading.
#[derive(Clone, Copy)]
#[verifier::external_body] pub struct Serial { _opaque: () }
#[derive(Clone, Copy)]
#[verifier::external_body] pub struct Time { _opaque: () }
#[derive(Clone, Copy)]
#[verifier::external_body] pub struct Validity { _opaque: () }

impl Serial { pub uninterp spec fn val(&self) -> int; }
impl Time { pub uninterp spec fn val(&self) -> int; }
pub uninterp spec fn clock_reading(t: Time) -> bool;

pub open spec fn int_cmp(a: int, b: int) -> Ordering {
    if a < b { Ordering::Less } else if a == b { Ordering::Equal } else { Ordering::Greater }
}
pub broadcast axiom fn serial_val_injective(a: Serial, b: Serial)
    ensures #[trigger] a.val() == #[trigger] b.val() ==> a == b;
pub broadcast axiom fn time_val_injective(a: Time, b: Time)
    ensures #[trigger] a.val() == #[trigger] b.val() ==> a == b;

impl PartialEqSpecImpl for Serial {
    open spec fn obeys_eq_spec() -> bool { true }
    open spec fn eq_spec(&self, other: &Serial) -> bool { self.val() == other.val() }
}
impl PartialEq for Serial {
    #[verifier::external_body]
    fn eq(&self, other: &Self) -> bool { unimplemented!() }
}
impl Eq for Serial {}
impl PartialOrdSpecImpl for Serial {
    open spec fn obeys_partial_cmp_spec() -> bool { true }
    open spec fn partial_cmp_spec(&self, other: &Serial) -> Option<Ordering> { Some(int_cmp(self.val(), other.val())) }
}
impl PartialOrd for Serial {
    #[verifier::external_body]
    fn partial_cmp(&self, other: &Serial) -> Option<Ordering> { unimplemented!() }
}
impl OrdSpecImpl for Serial {
    open spec fn obeys_cmp_spec() -> bool { true }
    open spec fn cmp_spec(&self, other: &Serial) -> Ordering { int_cmp(self.val(), other.val()) }
}
impl Ord for Serial {
    #[verifier::external_body]
    fn cmp(&self, other: &Serial) -> Ordering { unimplemented!() }
}
impl PartialEqSpecImpl for Time {
    open spec fn obeys_eq_spec() -> bool { true }
    open spec fn eq_spec(&self, other: &Time) -> bool { self.val() == other.val() }
}
impl PartialEq for Time {
    #[verifier::external_body]
    fn eq(&self, other: &Self) -> bool { unimplemented!() }
}
impl Eq for Time {}
impl PartialOrdSpecImpl for Time {
    open spec fn obeys_partial_cmp_spec() -> bool { true }
    open spec fn partial_cmp_spec(&self, other: &Time) -> Option<Ordering> { Some(int_cmp(self.val(), other.val())) }
}
impl PartialOrd for Time {
    #[verifier::external_body]
    fn partial_cmp(&self, other: &Time) -> Option<Ordering> { unimplemented!() }
}
impl OrdSpecImpl for Time {
    open spec fn obeys_cmp_spec() -> bool { true }
    open spec fn cmp_spec(&self, other: &Time) -> Ordering { int_cmp(self.val(), other.val()) }
}
impl Ord for Time {
    #[verifier::external_body]
    fn cmp(&self, other: &Time) -> Ordering { unimplemented!() }
}
impl Time {
    #[verifier::external_body]
    pub fn now() -> (r: Time) ensures clock_reading(r), { unimplemented!() }
}
impl Validity {
    pub uninterp spec fn not_before_spec(&self) -> Time;
    pub uninterp spec fn not_after_spec(&self) -> Time;
    #[verifier::external_body]
    pub fn not_before(self) -> (r: Time) ensures r == self.not_before_spec(), { unimplemented!() }
    #[verifier::external_body]
    pub fn not_after(self) -> (r: Time) ensures r == self.not_after_spec(), { unimplemented!() }
    #[verifier::external_body]
    pub fn trim(self, other: Validity) -> (r: Validity) { unimplemented!() }
}

// ---- rpki::crypto::keys::KeyIdentifier: a 20 byte array newtype with derived
// Eq. Abstracted to its identity (`id`); equality is structural.
#[derive(Clone, Copy)]
#[verifier::external_body] pub struct KeyIdentifier { _opaque: () }
impl KeyIdentifier {
    pub uninterp spec fn id(&self) -> int;
}
impl PartialEqSpecImpl for KeyIdentifier {
    open spec fn obeys_eq_spec() -> bool { true }
    open spec fn eq_spec(&self, other: &KeyIdentifier) -> bool { self.id() == other.id() }
}
impl PartialEq for KeyIdentifier {
    #[verifier::external_body]
    fn eq(&self, other: &Self) -> bool { unimplemented!() }
}

// ---- rpki::repository::cert::{Cert, ResourceCert} (ResourceCert reaches Cert's
// accessors through Deref; they are declared on both)
#[verifier::external_body] pub struct Cert { _opaque: () }
#[verifier::external_body] pub struct ResourceCert { _opaque: () }
pub uninterp spec fn cert_decode_spec(bytes: Bytes) -> Result<Cert, DecodeError>;
impl Cert {
    pub uninterp spec fn ski_spec(&self) -> KeyIdentifier;
    pub uninterp spec fn crl_uri_spec(&self) -> Option<RsyncUri>;
    pub uninterp spec fn serial_spec(&self) -> Serial;
    pub uninterp spec fn key_spec(&self) -> PublicKey;
    pub uninterp spec fn key_usage_spec(&self) -> KeyUsage;
    pub uninterp spec fn validity_spec(&self) -> Validity;
    pub uninterp spec fn validate_ca_spec(self, issuer: &ResourceCert, strict: bool) -> Result<ResourceCert, ValidationError>;
    pub uninterp spec fn validate_router_spec(&self, issuer: &ResourceCert, strict: bool) -> bool;

    #[verifier::external_body]
    pub fn decode(source: Bytes) -> (r: Result<Cert, DecodeError>) ensures r == cert_decode_spec(source), { unimplemented!() }
    #[verifier::external_body]
    pub fn subject_key_identifier(&self) -> (r: KeyIdentifier) ensures r == self.ski_spec(), { unimplemented!() }
    #[verifier::external_body]
    pub fn crl_uri(&self) -> (r: Option<&RsyncUri>)
        ensures match r { Some(u) => self.crl_uri_spec() == Some(*u), None => self.crl_uri_spec() is None },
    { unimplemented!() }
    #[verifier::external_body]
    pub fn serial_number(&self) -> (r: Serial) ensures r == self.serial_spec(), { unimplemented!() }
    #[verifier::external_body]
    pub fn subject_public_key_info(&self) -> (r: &PublicKey) ensures *r == self.key_spec(), { unimplemented!() }
    #[verifier::external_body]
    pub fn key_usage(&self) -> (r: KeyUsage) ensures r == self.key_usage_spec(), { unimplemented!() }
    #[verifier::external_body]
    pub fn validity(&self) -> (r: Validity) ensures r == self.validity_spec(), { unimplemented!() }
    #[verifier::external_body]
    pub fn validate_ca(self, issuer: &ResourceCert, strict: bool) -> (r: Result<ResourceCert, ValidationError>)
        ensures r == self.validate_ca_spec(issuer, strict),
    { unimplemented!() }
    #[verifier::external_body]
    pub fn validate_router(&self, issuer: &ResourceCert, strict: bool) -> (r: Result<(), ValidationError>)
        ensures r is Ok <==> self.validate_router_spec(issuer, strict),
    { unimplemented!() }
}
impl ResourceCert {
    pub uninterp spec fn ski_spec(&self) -> KeyIdentifier;
    pub uninterp spec fn crl_uri_spec(&self) -> Option<RsyncUri>;
    pub uninterp spec fn serial_spec(&self) -> Serial;
    pub uninterp spec fn key_spec(&self) -> PublicKey;
    pub uninterp spec fn validity_spec(&self) -> Validity;
    pub uninterp spec fn ca_repository_spec(&self) -> Option<&RsyncUri>;
    pub uninterp spec fn rpki_manifest_spec(&self) -> Option<&RsyncUri>;
    pub uninterp spec fn rpki_notify_spec(&self) -> Option<&HttpsUri>;

    #[verifier::external_body]
    pub fn subject_key_identifier(&self) -> (r: KeyIdentifier) ensures r == self.ski_spec(), { unimplemented!() }
    #[verifier::external_body]
    pub fn crl_uri(&self) -> (r: Option<&RsyncUri>)
        ensures match r { Some(u) => self.crl_uri_spec() == Some(*u), None => self.crl_uri_spec() is None },
    { unimplemented!() }
    #[verifier::external_body]
    pub fn serial_number(&self) -> (r: Serial) ensures r == self.serial_spec(), { unimplemented!() }
    #[verifier::external_body]
    pub fn subject_public_key_info(&self) -> (r: &PublicKey) ensures *r == self.key_spec(), { unimplemented!() }
    #[verifier::external_body]
    pub fn validity(&self) -> (r: Validity) ensures r == self.validity_spec(), { unimplemented!() }
    #[verifier::external_body]
    pub fn ca_repository(&self) -> (r: Option<&RsyncUri>) ensures r == self.ca_repository_spec(), { unimplemented!() }
    #[verifier::external_body]
    pub fn rpki_manifest(&self) -> (r: Option<&RsyncUri>) ensures r == self.rpki_manifest_spec(), { unimplemented!() }
    #[verifier::external_body]
    pub fn rpki_notify(&self) -> (r: Option<&HttpsUri>) ensures r == self.rpki_notify_spec(), { unimplemented!() }
    #[verifier::external_body]
    pub fn tal(&self) -> (r: &Arc<TalInfo>) { unimplemented!() }
}
impl Clone for ResourceCert {
    #[verifier::external_body]
    fn clone(&self) -> (r: ResourceCert) ensures r == *self, { unimplemented!() }
}

// ---- rpki::repository::manifest
#[verifier::external_body] pub struct ManifestContent { _opaque: () }
#[verifier::external_body] pub struct Manifest { _opaque: () }
#[verifier::external_body] pub struct FileAndHash { _opaque: () }
#[verifier::external_body] pub struct FileListIter { _opaque: () }
#[verifier::external_body] pub struct ManifestHash { _opaque: () }

// What decoding a byte string as a manifest yields: a ghost function of the
// bytes and the strict flag (rpki decides it, the units do not).
pub uninterp spec fn manifest_decode_spec(bytes: Bytes, strict: bool) -> Result<Manifest, DecodeError>;
// whether the digest of `content` under `alg` equals `hash`
pub uninterp spec fn hash_ok(hash: Bytes, alg: DigestAlgorithm, content: Bytes) -> bool;

impl Manifest {
    pub uninterp spec fn content_spec(&self) -> ManifestContent;
    // signature / certificate validation of the manifest against the issuing CA
    // certificate (includes the validity period check at the time of the call)
    pub uninterp spec fn validate_spec(self, cert: &ResourceCert, strict: bool)
        -> Result<(ResourceCert, ManifestContent), ValidationError>;

    #[verifier::external_body]
    pub fn decode(source: Bytes, strict: bool) -> (r: Result<Manifest, DecodeError>)
        ensures r == manifest_decode_spec(source, strict),
    { unimplemented!() }
    #[verifier::external_body]
    pub fn content(&self) -> (r: &ManifestContent) ensures *r == self.content_spec(), { unimplemented!() }
    #[verifier::external_body]
    pub fn validate(self, cert: &ResourceCert, strict: bool)
        -> (r: Result<(ResourceCert, ManifestContent), ValidationError>)
        ensures r == self.validate_spec(cert, strict),
            // validation hands back the manifest's own content
            r matches Ok(p) ==> p.1 == self.content_spec(),
    { unimplemented!() }
}

impl ManifestContent {
    pub uninterp spec fn number_spec(&self) -> Serial;
    pub uninterp spec fn this_update_spec(&self) -> Time;
    pub uninterp spec fn next_update_spec(&self) -> Time;
    pub uninterp spec fn stale_spec(&self) -> bool;
    pub uninterp spec fn items_spec(&self) -> Seq<FileAndHash>;
    pub uninterp spec fn alg_spec(&self) -> DigestAlgorithm;
    pub uninterp spec fn len_spec(&self) -> usize;

    #[verifier::external_body]
    pub fn manifest_number(&self) -> (r: Serial) ensures r == self.number_spec(), { unimplemented!() }
    #[verifier::external_body]
    pub fn this_update(&self) -> (r: Time) ensures r == self.this_update_spec(), { unimplemented!() }
    #[verifier::external_body]
    pub fn next_update(&self) -> (r: Time) ensures r == self.next_update_spec(), { unimplemented!() }
    #[verifier::external_body]
    pub fn is_stale(&self) -> (r: bool) ensures r == self.stale_spec(), { unimplemented!() }
    #[verifier::external_body]
    pub fn file_hash_alg(&self) -> (r: DigestAlgorithm) ensures r == self.alg_spec(), { unimplemented!() }
    #[verifier::external_body]
    pub fn len(&self) -> (r: usize) ensures r == self.len_spec(), { unimplemented!() }
    #[verifier::external_body]
    pub fn is_empty(&self) -> (r: bool) { unimplemented!() }
    #[verifier::external_body]
    pub fn iter(&self) -> (r: FileListIter)
        ensures r.remaining() == self.items_spec(),
    { unimplemented!() }
}

// the file list iterator: finite, yields items_spec() in order
pub uninterp spec fn file_list_remaining(it: &FileListIter) -> Seq<FileAndHash>;
pub uninterp spec fn file_list_count(it: &FileListIter) -> nat;
impl Iterator for FileListIter {
    type Item = FileAndHash;
    #[verifier::external_body]
    fn next(&mut self) -> Option<FileAndHash> { unimplemented!() }
}
impl vstd::std_specs::iter::IteratorSpecImpl for FileListIter {
    open spec fn obeys_prophetic_iter_laws(&self) -> bool { true }
    #[verifier::prophetic]
    open spec fn remaining(&self) -> Seq<FileAndHash> { file_list_remaining(self) }
    open spec fn decrease(&self) -> Option<nat> { Some(file_list_count(self)) }
    #[verifier::prophetic]
    open spec fn will_return_none(&self) -> bool { true }
    open spec fn peek(&self, index: int) -> Option<FileAndHash> { None }
}

impl FileAndHash {
    pub uninterp spec fn file_spec(&self) -> Bytes;
    pub uninterp spec fn hash_spec(&self) -> Bytes;

    #[verifier::external_body]
    pub fn into_pair(self) -> (r: (Bytes, Bytes))
        ensures r.0 == self.file_spec(), r.1 == self.hash_spec(),
    { unimplemented!() }
    #[verifier::external_body]
    pub fn file(&self) -> (r: &Bytes) ensures *r == self.file_spec(), { unimplemented!() }
    #[verifier::external_body]
    pub fn hash(&self) -> (r: &Bytes) ensures *r == self.hash_spec(), { unimplemented!() }
}

impl ManifestHash {
    pub uninterp spec fn hash_spec(&self) -> Bytes;
    pub uninterp spec fn alg_spec(&self) -> DigestAlgorithm;

    #[verifier::external_body]
    pub fn new(hash: Bytes, algorithm: DigestAlgorithm) -> (r: ManifestHash)
        ensures r.hash_spec() == hash, r.alg_spec() == algorithm,
    { unimplemented!() }
    #[verifier::external_body]
    pub fn verify(&self, t: &Bytes) -> (r: Result<(), ManifestHashMismatch>)
        ensures r is Ok <==> hash_ok(self.hash_spec(), self.alg_spec(), *t),
    { unimplemented!() }
}

// ---- rpki::repository::crl::Crl
#[verifier::external_body] pub struct Crl { _opaque: () }
pub uninterp spec fn crl_decode_spec(bytes: Bytes) -> Result<Crl, DecodeError>;

// cache_serials() only builds a lookup set: the CRL's answers stay the same
pub open spec fn same_crl(a: Crl, b: Crl) -> bool {
    &&& a.stale_spec() == b.stale_spec()
    &&& a.next_update_spec() == b.next_update_spec()
    &&& forall|k: PublicKey| a.sig_ok_spec(k) == b.sig_ok_spec(k)
    &&& forall|s: Serial| a.contains_spec(s) == b.contains_spec(s)
}

impl Crl {
    pub uninterp spec fn stale_spec(&self) -> bool;
    pub uninterp spec fn next_update_spec(&self) -> Time;
    pub uninterp spec fn sig_ok_spec(&self, key: PublicKey) -> bool;
    pub uninterp spec fn contains_spec(&self, serial: Serial) -> bool;

    #[verifier::external_body]
    pub fn decode(source: Bytes) -> (r: Result<Crl, DecodeError>)
        ensures r == crl_decode_spec(source),
    { unimplemented!() }
    #[verifier::external_body]
    pub fn verify_signature(&self, public_key: &PublicKey) -> (r: Result<(), VerificationError>)
        ensures r is Ok <==> self.sig_ok_spec(*public_key),
    { unimplemented!() }
    #[verifier::external_body]
    pub fn is_stale(&self) -> (r: bool) ensures r == self.stale_spec(), { unimplemented!() }
    #[verifier::external_body]
    pub fn next_update(&self) -> (r: Time) ensures r == self.next_update_spec(), { unimplemented!() }
    #[verifier::external_body]
    pub fn cache_serials(&mut self) ensures same_crl(*final(self), *old(self)), { unimplemented!() }
    #[verifier::external_body]
    pub fn contains(&self, serial: Serial) -> (r: bool) ensures r == self.contains_spec(serial), { unimplemented!() }
}
impl Clone for Crl {
    #[verifier::external_body]
    fn clone(&self) -> (r: Crl) ensures r == *self, { unimplemented!() }
}

// ---- collector::Repository: what loading an object yields in this run
#[verifier::external_body] pub struct CollRepository<'a> { _p: &'a Collector }
impl<'a> CollRepository<'a> {
    pub uninterp spec fn load_spec(&self, uri: &RsyncUri) -> Result<Option<Bytes>, RunFailed>;

    #[verifier::external_body]
    pub fn load_object(&self, uri: &RsyncUri) -> (r: Result<Option<Bytes>, RunFailed>)
        ensures r == self.load_spec(uri),
    { unimplemented!() }
}

// ---- log / formatting (R2) and metric counters (R14): content dropped, no
// effect on verified state
#[verifier::external_body]
pub fn fmt_opaque() -> (r: FmtArgs) { unimplemented!() }
#[verifier::external_body]
pub fn metric_inc(c: u32) -> (r: u32) { unimplemented!() }
impl LogBook {
    #[verifier::external_body]
    pub fn is_empty(&self) -> (r: bool) { unimplemented!() }
}
impl LogBookWriter {
    #[verifier::external_body]
    pub fn new(process_prefix: Option<String>) -> (r: LogBookWriter) { unimplemented!() }
    #[verifier::external_body]
    pub fn trace(&mut self, args: FmtArgs) { unimplemented!() }
    #[verifier::external_body]
    pub fn debug(&mut self, args: FmtArgs) { unimplemented!() }
    #[verifier::external_body]
    pub fn info(&mut self, args: FmtArgs) { unimplemented!() }
    #[verifier::external_body]
    pub fn warn(&mut self, args: FmtArgs) { unimplemented!() }
    #[verifier::external_body]
    pub fn error(&mut self, args: FmtArgs) { unimplemented!() }
    #[verifier::external_body]
    pub fn into_book(self) -> (r: LogBook) { unimplemented!() }
}

// ---- derived impls of extracted crate types (attributes are dropped by
// extraction): Failed, RunFailed, FilterPolicy are `Clone, Copy`; FilterPolicy
// is `PartialEq, Eq` (structural)
impl Clone for Failed { #[verifier::external_body] fn clone(&self) -> (r: Self) ensures r == *self, { unimplemented!() } }
impl Copy for Failed {}
impl Clone for RunFailed { #[verifier::external_body] fn clone(&self) -> (r: Self) ensures r == *self, { unimplemented!() } }
impl Copy for RunFailed {}
impl Clone for FilterPolicy { #[verifier::external_body] fn clone(&self) -> (r: Self) ensures r == *self, { unimplemented!() } }
impl Copy for FilterPolicy {}
impl PartialEqSpecImpl for FilterPolicy {
    open spec fn obeys_eq_spec() -> bool { true }
    closed spec fn eq_spec(&self, other: &FilterPolicy) -> bool { *self == *other }
}
impl PartialEq for FilterPolicy {
    #[verifier::external_body]
    fn eq(&self, other: &Self) -> bool { unimplemented!() }
}
impl Eq for FilterPolicy {}


// derived impls of the extracted PublicationMetrics (`Clone, Default`: all counters 0)
pub closed spec fn metrics_zero(m: PublicationMetrics) -> bool {
    m.valid_points == 0 && m.rejected_points == 0 && m.valid_manifests == 0 && m.invalid_manifests == 0
    && m.premature_manifests == 0 && m.stale_manifests == 0 && m.missing_manifests == 0
    && m.valid_crls == 0 && m.invalid_crls == 0 && m.stale_crls == 0 && m.stray_crls == 0
    && m.valid_ca_certs == 0 && m.valid_router_certs == 0 && m.invalid_certs == 0
    && m.valid_roas == 0 && m.invalid_roas == 0 && m.valid_gbrs == 0 && m.invalid_gbrs == 0
    && m.valid_aspas == 0 && m.invalid_aspas == 0 && m.others == 0
}
impl Default for PublicationMetrics {
    #[verifier::external_body]
    fn default() -> (r: PublicationMetrics) ensures metrics_zero(r), { unimplemented!() }
}
impl Clone for PublicationMetrics {
    #[verifier::external_body]
    fn clone(&self) -> (r: PublicationMetrics) ensures r == *self, { unimplemented!() }
}

// ---- std functions without a vstd specification (ASSUMED: their std definitions).
// Declared so that a refactoring that starts using one of them is verified, not rejected.
pub assume_specification<T: Ord + core::marker::Destruct> [std::cmp::min] (a: T, b: T) -> (r: T)
    ensures T::obeys_cmp_spec() ==> r == (if b.cmp_spec(&a) == std::cmp::Ordering::Less { b } else { a }),
;
pub assume_specification<T: Ord + core::marker::Destruct> [std::cmp::max] (a: T, b: T) -> (r: T)
    ensures T::obeys_cmp_spec() ==> r == (if b.cmp_spec(&a) == std::cmp::Ordering::Less { a } else { b }),
;
pub assume_specification [std::cmp::Ordering::is_lt] (o: std::cmp::Ordering) -> (r: bool)
    ensures r == (o == std::cmp::Ordering::Less);
pub assume_specification [std::cmp::Ordering::is_gt] (o: std::cmp::Ordering) -> (r: bool)
    ensures r == (o == std::cmp::Ordering::Greater);
pub assume_specification [std::cmp::Ordering::is_le] (o: std::cmp::Ordering) -> (r: bool)
    ensures r == (o != std::cmp::Ordering::Greater);
pub assume_specification [std::cmp::Ordering::is_ge] (o: std::cmp::Ordering) -> (r: bool)
    ensures r == (o != std::cmp::Ordering::Less);
pub assume_specification<T: core::marker::Destruct> [bool::then_some] (b: bool, t: T) -> (r: Option<T>)
    ensures r == (if b { Some(t) } else { None::<T> });
pub assume_specification<T: core::marker::Destruct> [std::option::Option::<T>::xor] (a: Option<T>, b: Option<T>) -> (r: Option<T>)
    ensures r == (match (a, b) { (Some(x), None) => Some(x), (None, Some(y)) => Some(y), _ => None::<T> });
pub assume_specification<'a, T: Copy> [std::option::Option::<&T>::copied] (o: Option<&'a T>) -> (r: Option<T>)
    ensures r == (match o { Some(x) => Some(*x), None => None::<T> });
pub assume_specification<T: core::marker::Destruct> [std::option::Option::<T>::or] (a: Option<T>, b: Option<T>) -> (r: Option<T>)
    ensures r == (if a is Some { a } else { b });
pub assume_specification<T: core::marker::Destruct, U: core::marker::Destruct> [std::option::Option::<T>::and] (a: Option<T>, b: Option<U>) -> (r: Option<U>)
    ensures r == (if a is Some { b } else { None::<U> });
pub assume_specification<T: core::marker::Destruct, U: core::marker::Destruct> [std::option::Option::<T>::zip] (a: Option<T>, b: Option<U>) -> (r: Option<(T, U)>)
    ensures r == (match (a, b) { (Some(x), Some(y)) => Some((x, y)), _ => None::<(T, U)> });
pub assume_specification<T, F: FnOnce(T) -> bool + core::marker::Destruct> [std::option::Option::<T>::is_some_and] (o: Option<T>, f: F) -> (r: bool)
    requires o matches Some(x) ==> f.requires((x,)),
    ensures match o { Some(x) => f.ensures((x,), r), None => !r };
pub assume_specification<T, F: FnOnce(T) -> bool + core::marker::Destruct> [std::option::Option::<T>::is_none_or] (o: Option<T>, f: F) -> (r: bool)
    requires o matches Some(x) ==> f.requires((x,)),
    ensures match o { Some(x) => f.ensures((x,), r), None => r };
pub assume_specification<T: core::marker::Destruct, P: FnOnce(&T) -> bool + core::marker::Destruct> [std::option::Option::<T>::filter] (o: Option<T>, p: P) -> (r: Option<T>)
    requires o matches Some(x) ==> p.requires((&x,)),
    ensures match o { Some(x) => (r == Some(x) && p.ensures((&x,), true)) || (r is None && p.ensures((&x,), false)), None => r is None },
        // the predicate returned SOME boolean for the element, and the result follows it
        o is Some ==> exists|__b: bool| p.ensures((&o->Some_0,), __b) && r == (if __b { o } else { None::<T> });
pub assume_specification<T: core::marker::Destruct, F: FnOnce() -> Option<T> + core::marker::Destruct> [std::option::Option::<T>::or_else] (o: Option<T>, f: F) -> (r: Option<T>)
    requires o is None ==> f.requires(()),
    ensures match o { Some(x) => r == o, None => f.ensures((), r) };
pub assume_specification<T, U: core::marker::Destruct, F: FnOnce(T) -> U + core::marker::Destruct> [std::option::Option::<T>::map_or] (o: Option<T>, d: U, f: F) -> (r: U)
    requires o matches Some(x) ==> f.requires((x,)),
    ensures match o { Some(x) => f.ensures((x,), r), None => r == d };
pub assume_specification<T, U, D: FnOnce() -> U + core::marker::Destruct, F: FnOnce(T) -> U + core::marker::Destruct> [std::option::Option::<T>::map_or_else] (o: Option<T>, d: D, f: F) -> (r: U)
    requires o matches Some(x) ==> f.requires((x,)), o is None ==> d.requires(()),
    ensures match o { Some(x) => f.ensures((x,), r), None => d.ensures((), r) };
pub assume_specification<T: core::marker::Destruct, E: core::marker::Destruct> [std::result::Result::<T, E>::unwrap_or] (x: Result<T, E>, d: T) -> (r: T)
    ensures r == (match x { Ok(v) => v, Err(_) => d });
pub assume_specification<T, E: core::marker::Destruct, F: core::marker::Destruct> [std::result::Result::<T, E>::or] (a: Result<T, E>, b: Result<T, F>) -> (r: Result<T, F>)
    ensures match a { Ok(v) => r == Ok::<T, F>(v), Err(_) => r == b };
pub assume_specification<T, E, U, F: FnOnce(T) -> Result<U, E> + core::marker::Destruct> [std::result::Result::<T, E>::and_then] (x: Result<T, E>, f: F) -> (r: Result<U, E>)
    requires x matches Ok(v) ==> f.requires((v,)),
    ensures match x { Ok(v) => f.ensures((v,), r), Err(e) => r == Err::<U, E>(e) };
pub assume_specification<T, E: core::marker::Destruct, F: FnOnce(T) -> bool + core::marker::Destruct> [std::result::Result::<T, E>::is_ok_and] (x: Result<T, E>, f: F) -> (r: bool)
    requires x matches Ok(v) ==> f.requires((v,)),
    ensures match x { Ok(v) => f.ensures((v,), r), Err(_) => !r };
pub assume_specification<T, E, F: FnOnce(E) -> T + core::marker::Destruct> [std::result::Result::<T, E>::unwrap_or_else] (x: Result<T, E>, f: F) -> (r: T)
    requires x matches Err(e) ==> f.requires((e,)),
    ensures match x { Ok(v) => r == v, Err(e) => f.ensures((e,), r) };
pub assume_specification<T> [std::mem::replace] (dest: &mut T, src: T) -> (r: T)
    ensures r == *old(dest), *final(dest) == src;
pub assume_specification [<std::cmp::Ordering as PartialEq>::eq] (a: &std::cmp::Ordering, b: &std::cmp::Ordering) -> (r: bool)
    ensures r == (*a == *b);
