//@ fn CaCert::cert
//@ spec
    ensures res == &self.cert,
//@ fn CaCert::ca_repository
//@ spec
    ensures res == &self.ca_repository,
//@ fn PubPoint::validate_collected_crl
//@ spec
    requires
        metrics_room(old(self).metrics, 8),
    ensures
        // C06: with the stale policy 'reject' a CRL past its nextUpdate is never accepted
        res matches Ok(Some(t)) ==> (old(self).run.validation.stale is Reject ==> !t.1.stale_spec()),
        // C06 C01: with 'warn' / 'accept' (and with 'reject' for a CRL that is not stale) the CRL is
        // processed normally: it is accepted exactly if all the other checks pass; the staleness
        // flag plays no other role
        res is Ok && res->Ok_0 is Some <==> crl_accepted(old(self), ee_cert, manifest, repository),
        // C06 C01: the accepted CRL is the listed, loaded, decoded one
        res matches Ok(Some(t)) ==> ({
            &&& ee_cert.crl_uri_spec() == Some(t.0)
            &&& repository.load_spec(&t.0) == Ok::<Option<Bytes>, RunFailed>(Some(t.2))
            &&& crl_decode_spec(t.2) is Ok && same_crl(t.1, crl_decode_spec(t.2)->Ok_0)
        }),
        // an error is a failure to read from the collector, nothing else
        res matches Err(e) ==> ee_cert.crl_uri_spec() is Some
            && repository.load_spec(&ee_cert.crl_uri_spec()->Some_0) == Err::<Option<Bytes>, RunFailed>(e),
        // frame
        final(self).run == old(self).run, final(self).cert == old(self).cert,
        final(self).processor == old(self).processor,
        final(self).repository_index == old(self).repository_index,
        metrics_within(old(self).metrics, final(self).metrics, 4),
//@ loopvar 1 it
//@ loop 1
            invariant
                it.seq() == manifest.items_spec(),
                ee_cert.crl_uri_spec() == Some(crl_uri),
                crl_uri.relative_to_spec(&self.cert.ca_repository) == Some(crl_name@),
                // some entry so far names the CRL <==> we hold its bytes
                crl_bytes is Some <==> exists|j: int| 0 <= j < it.index@ && listed_at(manifest, j, crl_name@),
                crl_bytes matches Some(b) ==> repository.load_spec(&crl_uri) == Ok::<Option<Bytes>, RunFailed>(Some(b))
                    && forall|j: int| 0 <= j < it.index@ && listed_at(manifest, j, crl_name@)
                        ==> hash_ok(#[trigger] manifest.items_spec()[j].hash_spec(), manifest.alg_spec(), b),
                self.run == old(self).run, self.cert == old(self).cert,
                self.processor == old(self).processor,
                self.repository_index == old(self).repository_index,
                self.metrics == old(self).metrics,
                metrics_room(self.metrics, 8),
//@ loopentry 1
                let ghost idx = it.index@;
                proof {
                    assert(item == manifest.items_spec()[idx]);
                    assert(listed_at(manifest, idx, crl_name@) == bytes_eq_str(item.file_spec(), crl_name@));
                }
//@ exit
        proof {
            // witnesses for crl_accepted: the listed entry found by the loop and the decoded CRL
            let name = crl_uri.relative_to_spec(&old(self).cert.ca_repository)->Some_0;
            assert(exists|j: int| 0 <= j < manifest.items_spec().len() && listed_at(manifest, j, name));
            assert(same_crl(crl, crl_decode_spec(crl_bytes)->Ok_0));
        }
//@ fn PubPoint::validate_collected_manifest
//@ spec
    requires
        metrics_room(old(self).metrics, 16),
    ensures
        // C06: a fetched manifest whose thisUpdate is in the future is never accepted, whatever
        // the policy: an accepted manifest's thisUpdate is not later than a clock reading taken
        // during this call
        res matches Ok(Some(m)) ==> exists|t: Time| #[trigger] clock_reading(t)
            && m.content.this_update_spec().val() <= t.val(),
        // C06: with the stale policy 'reject' neither a stale manifest nor a stale CRL is accepted
        res matches Ok(Some(m)) ==> (old(self).run.validation.stale is Reject
            ==> !m.content.stale_spec() && !m.crl.stale_spec()),
        // C06 C01: what is accepted is the decoded, validated manifest with its listed CRL
        res matches Ok(Some(m)) ==> ({
            let strict = old(self).run.validation.strict;
            &&& manifest_decode_spec(manifest_bytes, strict) is Ok
            &&& manifest_decode_spec(manifest_bytes, strict)->Ok_0.validate_spec(&old(self).cert.cert, strict)
                    == Ok::<(ResourceCert, ManifestContent), ValidationError>((m.ee_cert, m.content))
            &&& m.manifest_bytes == manifest_bytes
            &&& crl_accepted(old(self), &m.ee_cert, &m.content, repository)
        }),
        // C06: with 'warn' / 'accept' a stale manifest / CRL is processed normally: if the manifest
        // decodes, validates, is not premature w.r.t. any clock reading and its CRL passes its
        // checks, it is accepted (staleness matters only under 'reject')
        ({
            let strict = old(self).run.validation.strict;
            &&& manifest_decode_spec(manifest_bytes, strict) matches Ok(mft)
            &&& mft.validate_spec(&old(self).cert.cert, strict) matches Ok(pair)
            &&& (forall|t: Time| clock_reading(t) ==> pair.1.this_update_spec().val() <= t.val())
            &&& (pair.1.stale_spec() ==> !(old(self).run.validation.stale is Reject))
            &&& crl_accepted(old(self), &pair.0, &pair.1, repository)
        }) ==> res is Ok && res->Ok_0 is Some,
        // frame
        final(self).run == old(self).run, final(self).cert == old(self).cert,
        final(self).processor == old(self).processor,
        final(self).repository_index == old(self).repository_index,
//@ fn PubPoint::validate_stored_manifest
//@ spec
    requires
        metrics_room(old(self).metrics, 16),
    ensures
        // C06: on the stored-data path, with the stale policy 'reject' neither a stale manifest
        // nor a stale CRL is accepted
        res matches Ok(m) ==> (old(self).run.validation.stale is Reject
            ==> !m.content.stale_spec() && !m.crl.stale_spec()),
        // C06 C01: otherwise it is processed normally: accepted exactly if all other checks pass
        res is Ok <==> stored_accepted(old(self), stored_manifest),
        // C06 C01: what is accepted is the decoded, validated stored manifest with the stored CRL
        res matches Ok(m) ==> ({
            let strict = old(self).run.validation.strict;
            &&& manifest_decode_spec(stored_manifest.manifest, strict)->Ok_0.validate_spec(&old(self).cert.cert, strict)
                    == Ok::<(ResourceCert, ManifestContent), ValidationError>((m.ee_cert, m.content))
            &&& same_crl(m.crl, crl_decode_spec(stored_manifest.crl)->Ok_0)
            &&& m.manifest_bytes == stored_manifest.manifest && m.crl_bytes == stored_manifest.crl
        }),
        // frame
        final(self).run == old(self).run, final(self).cert == old(self).cert,
        final(self).processor == old(self).processor,
        final(self).repository_index == old(self).repository_index,
//@ fn CaCert::uri
//@ spec
    ensures res == &self.uri,
//@ fn CaCert::rpki_manifest
//@ spec
    ensures res == &self.rpki_manifest,
//@ fn CaCert::rpki_notify
//@ spec
    ensures res == self.cert.rpki_notify_spec(),
//@ fn RunFailed::fatal
//@ spec
    ensures res == (RunFailed { fatal: true }),
//@ fn RunFailed::retry
//@ spec
    ensures res == (RunFailed { fatal: false }),
//@ fn RunFailed::is_fatal
//@ spec
    ensures res == self.fatal,
//@ fn RunFailed::should_retry
//@ spec
    ensures res == !self.fatal,
//@ global
// Helper precondition (not part of the property): every counter has room for `k` more steps.
// The counters of a publication point start at 0 and each validation function is called at
// most once per point, so any small k holds at every call site.
spec fn metrics_room(m: PublicationMetrics, k: int) -> bool {
    &&& m.valid_points + k <= u32::MAX && m.rejected_points + k <= u32::MAX
    &&& m.valid_manifests + k <= u32::MAX && m.invalid_manifests + k <= u32::MAX
    &&& m.premature_manifests + k <= u32::MAX && m.stale_manifests + k <= u32::MAX
    &&& m.missing_manifests + k <= u32::MAX
    &&& m.valid_crls + k <= u32::MAX && m.invalid_crls + k <= u32::MAX
    &&& m.stale_crls + k <= u32::MAX && m.stray_crls + k <= u32::MAX
    &&& m.valid_ca_certs + k <= u32::MAX && m.valid_router_certs + k <= u32::MAX
    &&& m.invalid_certs + k <= u32::MAX
    &&& m.valid_roas + k <= u32::MAX && m.invalid_roas + k <= u32::MAX
    &&& m.valid_gbrs + k <= u32::MAX && m.invalid_gbrs + k <= u32::MAX
    &&& m.valid_aspas + k <= u32::MAX && m.invalid_aspas + k <= u32::MAX
    &&& m.others + k <= u32::MAX
}

// every counter of `b` is at most `k` above the one of `a`
spec fn metrics_within(a: PublicationMetrics, b: PublicationMetrics, k: int) -> bool {
    &&& b.valid_points <= a.valid_points + k && b.rejected_points <= a.rejected_points + k
    &&& b.valid_manifests <= a.valid_manifests + k && b.invalid_manifests <= a.invalid_manifests + k
    &&& b.premature_manifests <= a.premature_manifests + k && b.stale_manifests <= a.stale_manifests + k
    &&& b.missing_manifests <= a.missing_manifests + k
    &&& b.valid_crls <= a.valid_crls + k && b.invalid_crls <= a.invalid_crls + k
    &&& b.stale_crls <= a.stale_crls + k && b.stray_crls <= a.stray_crls + k
    &&& b.valid_ca_certs <= a.valid_ca_certs + k && b.valid_router_certs <= a.valid_router_certs + k
    &&& b.invalid_certs <= a.invalid_certs + k
    &&& b.valid_roas <= a.valid_roas + k && b.invalid_roas <= a.invalid_roas + k
    &&& b.valid_gbrs <= a.valid_gbrs + k && b.invalid_gbrs <= a.invalid_gbrs + k
    &&& b.valid_aspas <= a.valid_aspas + k && b.invalid_aspas <= a.invalid_aspas + k
    &&& b.others <= a.others + k
}

// the j-th manifest entry names the file `name`
spec fn listed_at(manifest: &ManifestContent, j: int, name: Seq<char>) -> bool {
    bytes_eq_str(manifest.items_spec()[j].file_spec(), name)
}

// Written from the property statement: a fetched CRL is accepted iff all checks other than
// staleness pass, and it is not (stale while the policy is 'reject').
spec fn crl_accepted<'a, P: ProcessRun>(
    pp: &PubPoint<'a, P>, ee_cert: &ResourceCert, manifest: &ManifestContent, repository: &CollRepository
) -> bool {
    &&& ee_cert.crl_uri_spec() matches Some(uri)
    &&& uri.ends_with_spec(".crl"@)
    &&& uri.relative_to_spec(&pp.cert.ca_repository) matches Some(name)
    &&& exists|j: int| 0 <= j < manifest.items_spec().len() && listed_at(manifest, j, name)
    &&& repository.load_spec(&uri) matches Ok(Some(bytes))
    &&& forall|j: int| 0 <= j < manifest.items_spec().len() && listed_at(manifest, j, name)
            ==> hash_ok(#[trigger] manifest.items_spec()[j].hash_spec(), manifest.alg_spec(), bytes)
    &&& crl_decode_spec(bytes) matches Ok(crl)
    &&& crl.sig_ok_spec(pp.cert.cert.key_spec())
    &&& !crl.contains_spec(ee_cert.serial_spec())
    // the policy
    &&& (crl.stale_spec() ==> !(pp.run.validation.stale is Reject))
}

// Same for the stored-data path.
spec fn stored_accepted<'a, P: ProcessRun>(pp: &PubPoint<'a, P>, s: &StoredManifest) -> bool {
    let strict = pp.run.validation.strict;
    &&& manifest_decode_spec(s.manifest, strict) matches Ok(mft)
    &&& mft.validate_spec(&pp.cert.cert, strict) matches Ok(pair)
    &&& pair.0.crl_uri_spec() is Some
    &&& crl_decode_spec(s.crl) matches Ok(crl)
    &&& crl.sig_ok_spec(pp.cert.cert.key_spec())
    &&& !crl.contains_spec(pair.0.serial_spec())
    // the policy
    &&& (pair.1.stale_spec() ==> !(pp.run.validation.stale is Reject))
    &&& (crl.stale_spec() ==> !(pp.run.validation.stale is Reject))
}
