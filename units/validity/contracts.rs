//@ fn RouteValidity::prefix
//@ spec
    ensures res == self.prefix,
//@ fn RouteValidity::asn
//@ spec
    ensures res == self.asn,
//@ fn RouteValidity::matched
//@ spec
    ensures res@ == self.matched@,
//@ fn RouteValidity::bad_asn
//@ spec
    ensures res@ == self.bad_asn@,
//@ fn RouteValidity::bad_len
//@ spec
    ensures res@ == self.bad_len@,
//@ fn RouteValidity::new
//@ spec
    ensures
        res.prefix == prefix, res.asn == asn,
        // C20: the three lists partition the covering VRPs, in snapshot order
        res.built_from(snapshot.origins_spec()),
//@ beforeloop 1
        let ghost all = snapshot.origins_spec();
//@ loop 1
            invariant
                iter_1.obeys_prophetic_iter_laws(), iter_1.decrease() is Some,
                all == snapshot.origins_spec(),
                iter_1.remaining().len() <= all.len(),
                iter_1.remaining() == all.skip(all.len() - iter_1.remaining().len()),
                // C20
                matched@ == sel(all, all.len() - iter_1.remaining().len(), prefix, asn, Class::Matched),
                // C20
                bad_asn@ == sel(all, all.len() - iter_1.remaining().len(), prefix, asn, Class::BadAsn),
                // C20
                bad_len@ == sel(all, all.len() - iter_1.remaining().len(), prefix, asn, Class::BadLen),
            ensures
                iter_1.remaining().len() == 0,
            decreases iter_1.decrease()->Some_0,
//@ loopentry 1
                assert(iter_1.remaining().len() > 0 ==>
                    iter_1.remaining()[0] == all[all.len() - iter_1.remaining().len()]
                    && iter_1.remaining().skip(1) == all.skip(all.len() - iter_1.remaining().len() + 1));
//@ fn RouteValidity::state
//@ spec
    ensures
        // C20: valid iff some VRP matches; invalid iff some VRP covers but none
        // matches; not-found iff none covers.
        forall|vrps: Seq<(RouteOrigin, &'a PayloadInfo)>| #[trigger] self.built_from(vrps) ==> {
            &&& res is Valid <==> exists|i: int| 0 <= i < vrps.len() && matches_route(vrps[i].0, self.prefix, self.asn)
            &&& res is Invalid <==> (exists|i: int| 0 <= i < vrps.len() && covers_route(vrps[i].0, self.prefix))
                    && !(exists|i: int| 0 <= i < vrps.len() && matches_route(vrps[i].0, self.prefix, self.asn))
            &&& res is NotFound <==> !(exists|i: int| 0 <= i < vrps.len() && covers_route(vrps[i].0, self.prefix))
        },
        // in terms of the lists
        res is Valid <==> self.matched@.len() > 0,
        res is NotFound <==> self.matched@.len() == 0 && self.bad_asn@.len() == 0 && self.bad_len@.len() == 0,
//@ entry
        proof {
            assert forall|vrps: Seq<(RouteOrigin, &'a PayloadInfo)>| #[trigger] self.built_from(vrps) implies ({
                &&& (self.matched@.len() > 0 <==> exists|i: int| 0 <= i < vrps.len() && matches_route(vrps[i].0, self.prefix, self.asn))
                &&& ((self.matched@.len() > 0 || self.bad_asn@.len() > 0 || self.bad_len@.len() > 0)
                        <==> exists|i: int| 0 <= i < vrps.len() && covers_route(vrps[i].0, self.prefix))
            }) by {
                lemma_sel_nonempty(vrps, self.prefix, self.asn);
            }
        }
//@ fn RouteValidity::reason
//@ spec
    ensures
        // C20: the reason follows the lists: none when valid or not found,
        // "as" when an unmatched-AS VRP exists, otherwise "length".
        self.matched@.len() > 0 ==> res is None,
        self.matched@.len() == 0 && self.bad_asn@.len() > 0 ==> (res matches Some(s) && s@ == "as"@),
        self.matched@.len() == 0 && self.bad_asn@.len() == 0 && self.bad_len@.len() > 0
            ==> (res matches Some(s) && s@ == "length"@),
        self.matched@.len() == 0 && self.bad_asn@.len() == 0 && self.bad_len@.len() == 0 ==> res is None,
//@ global
// ---- written from the property statement (RFC 6811 terms) ----

// a VRP covers a route prefix
spec fn covers_route(v: RouteOrigin, prefix: Prefix) -> bool {
    prefix_covers(v.prefix.prefix_spec(), prefix)
}

// a VRP matches a route: covers it, same AS, max length at least the route's length
spec fn matches_route(v: RouteOrigin, prefix: Prefix, asn: Asn) -> bool {
    covers_route(v, prefix) && v.asn == asn && prefix.len_spec() <= v.prefix.resolved_max_len_spec()
}

enum Class { Matched, BadAsn, BadLen }

// the class of a covering VRP. A covering VRP that fails on both counts is
// listed under unmatched-length (the property statement leaves this open).
spec fn in_class(v: RouteOrigin, prefix: Prefix, asn: Asn, c: Class) -> bool {
    covers_route(v, prefix) && match c {
        Class::Matched => matches_route(v, prefix, asn),
        Class::BadLen => prefix.len_spec() > v.prefix.resolved_max_len_spec(),
        Class::BadAsn => prefix.len_spec() <= v.prefix.resolved_max_len_spec() && v.asn != asn,
    }
}

// the subsequence of the first `n` items of `s` (order kept, multiplicity kept)
// consisting of the VRPs in class `c`
spec fn sel<'a>(s: Seq<(RouteOrigin, &'a PayloadInfo)>, n: int, prefix: Prefix, asn: Asn, c: Class)
    -> Seq<(RouteOrigin, &'a PayloadInfo)>
    decreases n
{
    if n <= 0 { Seq::empty() }
    else if in_class(s[n - 1].0, prefix, asn, c) { sel(s, n - 1, prefix, asn, c).push(s[n - 1]) }
    else { sel(s, n - 1, prefix, asn, c) }
}

impl<'a> RouteValidity<'a> {
    spec fn built_from(&self, vrps: Seq<(RouteOrigin, &'a PayloadInfo)>) -> bool {
        &&& self.matched@ == sel(vrps, vrps.len() as int, self.prefix, self.asn, Class::Matched)
        &&& self.bad_asn@ == sel(vrps, vrps.len() as int, self.prefix, self.asn, Class::BadAsn)
        &&& self.bad_len@ == sel(vrps, vrps.len() as int, self.prefix, self.asn, Class::BadLen)
    }
}

proof fn lemma_sel_len<'a>(s: Seq<(RouteOrigin, &'a PayloadInfo)>, n: int, prefix: Prefix, asn: Asn, c: Class)
    requires 0 <= n <= s.len()
    ensures sel(s, n, prefix, asn, c).len() > 0 <==> exists|i: int| 0 <= i < n && in_class(s[i].0, prefix, asn, c)
    decreases n
{
    if n > 0 {
        lemma_sel_len(s, n - 1, prefix, asn, c);
    }
}

proof fn lemma_sel_nonempty<'a>(s: Seq<(RouteOrigin, &'a PayloadInfo)>, prefix: Prefix, asn: Asn)
    ensures
        sel(s, s.len() as int, prefix, asn, Class::Matched).len() > 0
            <==> exists|i: int| 0 <= i < s.len() && matches_route(s[i].0, prefix, asn),
        (sel(s, s.len() as int, prefix, asn, Class::Matched).len() > 0
            || sel(s, s.len() as int, prefix, asn, Class::BadAsn).len() > 0
            || sel(s, s.len() as int, prefix, asn, Class::BadLen).len() > 0)
            <==> exists|i: int| 0 <= i < s.len() && covers_route(s[i].0, prefix),
{
    lemma_sel_len(s, s.len() as int, prefix, asn, Class::Matched);
    lemma_sel_len(s, s.len() as int, prefix, asn, Class::BadAsn);
    lemma_sel_len(s, s.len() as int, prefix, asn, Class::BadLen);
    if exists|i: int| 0 <= i < s.len() && matches_route(s[i].0, prefix, asn) {
        let i = choose|i: int| 0 <= i < s.len() && matches_route(s[i].0, prefix, asn);
        assert(in_class(s[i].0, prefix, asn, Class::Matched));
    }
    if exists|i: int| 0 <= i < s.len() && covers_route(s[i].0, prefix) {
        let i = choose|i: int| 0 <= i < s.len() && covers_route(s[i].0, prefix);
        assert(in_class(s[i].0, prefix, asn, Class::Matched) || in_class(s[i].0, prefix, asn, Class::BadAsn)
            || in_class(s[i].0, prefix, asn, Class::BadLen));
    }
}

// C20: the three classes partition the covering VRPs: a VRP is in some class
// iff it covers the route, and never in two.
proof fn lemma_classes_partition(v: RouteOrigin, prefix: Prefix, asn: Asn)
    ensures
        covers_route(v, prefix) <==> (in_class(v, prefix, asn, Class::Matched)
            || in_class(v, prefix, asn, Class::BadAsn) || in_class(v, prefix, asn, Class::BadLen)),
        !(in_class(v, prefix, asn, Class::Matched) && in_class(v, prefix, asn, Class::BadAsn)),
        !(in_class(v, prefix, asn, Class::Matched) && in_class(v, prefix, asn, Class::BadLen)),
        !(in_class(v, prefix, asn, Class::BadAsn) && in_class(v, prefix, asn, Class::BadLen)),
{
}
