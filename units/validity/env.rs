// Environment of unit `validity` (C20): rpki resource types and the snapshot
// accessor, all ASSUMED. Nothing here is repository logic.

// ---- rpki::resources::Asn: `pub struct Asn(u32)` with derived (structural) Eq.
#[verifier::external_body] #[derive(Clone, Copy)] pub struct Asn { _opaque: u32 }

impl PartialEqSpecImpl for Asn {
    open spec fn obeys_eq_spec() -> bool { true }
    open spec fn eq_spec(&self, other: &Asn) -> bool { *self == *other }
}
impl PartialEq for Asn {
    #[verifier::external_body]
    fn eq(&self, other: &Self) -> bool { unimplemented!() }
}

// ---- rpki::resources::addr::Prefix. Abstract view of a prefix:
//   is_v4_spec  address family,
//   len_spec    prefix length (<= 32 for IPv4, <= 128 for IPv6),
//   bits_spec   the address left-aligned in 128 bits (an IPv4 address sits in
//               the top 32 bits), host bits zero.
#[verifier::external_body] #[derive(Clone, Copy)] pub struct Prefix { _opaque: u8 }

impl Prefix {
    pub uninterp spec fn is_v4_spec(&self) -> bool;
    pub uninterp spec fn len_spec(&self) -> u8;
    pub uninterp spec fn bits_spec(&self) -> u128;

    // ASSUMED contract of rpki's Prefix::covers, to be discharged by a Kani
    // harness against the real rpki function for every pair of prefixes that
    // rpki's constructors can produce: same family, self not longer than
    // other, and the first self.len() bits agree.
    #[verifier::external_body]
    pub fn covers(self, other: Prefix) -> (r: bool)
        ensures r == prefix_covers(self, other),
    { unimplemented!() }

    #[verifier::external_body]
    pub fn len(self) -> (r: u8)
        ensures r == self.len_spec(),
    { unimplemented!() }
}

pub open spec fn top_bits(x: u128, n: u8) -> u128 {
    if n == 0 { 0u128 } else if n >= 128 { x } else { x >> ((128 - n) as u128) }
}

pub open spec fn prefix_covers(a: Prefix, b: Prefix) -> bool {
    &&& a.is_v4_spec() == b.is_v4_spec()
    &&& a.len_spec() <= b.len_spec()
    &&& top_bits(a.bits_spec(), a.len_spec()) == top_bits(b.bits_spec(), a.len_spec())
}

// ---- rpki::resources::addr::MaxLenPrefix
#[verifier::external_body] #[derive(Clone, Copy)] pub struct MaxLenPrefix { _opaque: u8 }

impl MaxLenPrefix {
    pub uninterp spec fn prefix_spec(&self) -> Prefix;
    // the max-length, or the prefix length if no max-length is given
    pub uninterp spec fn resolved_max_len_spec(&self) -> u8;

    #[verifier::external_body]
    pub fn prefix(self) -> (r: Prefix)
        ensures r == self.prefix_spec(),
    { unimplemented!() }

    #[verifier::external_body]
    pub fn resolved_max_len(self) -> (r: u8)
        ensures r == self.resolved_max_len_spec(),
    { unimplemented!() }
}

// ---- rpki::rtr::payload::RouteOrigin: a plain struct with two public fields.
#[derive(Clone, Copy)]
pub struct RouteOrigin {
    pub prefix: MaxLenPrefix,
    pub asn: Asn,
}

// ---- crate::payload
#[verifier::external_body] pub struct PayloadInfo { _opaque: () }
#[verifier::external_body] pub struct PayloadSnapshot { _opaque: () }

impl PayloadSnapshot {
    // The VRPs of the data set, in snapshot order.
    pub uninterp spec fn origins_spec(&self) -> Seq<(RouteOrigin, &PayloadInfo)>;

    // (really `impl Iterator<Item = (RouteOrigin, &PayloadInfo)> + '_`)
    #[verifier::external_body]
    pub fn origins(&self) -> (r: OriginsIter<'_>)
        ensures
            r.remaining() == self.origins_spec(),
            r.obeys_prophetic_iter_laws(),
            r.decrease() is Some,
    { unimplemented!() }
}

// The iterator returned by PayloadSnapshot::origins (an opaque `impl Iterator`
// in the repository); it obeys vstd's iterator laws.
#[verifier::external_body] pub struct OriginsIter<'a> { _p: &'a PayloadSnapshot }
impl<'a> Iterator for OriginsIter<'a> {
    type Item = (RouteOrigin, &'a PayloadInfo);
    #[verifier::external_body]
    fn next(&mut self) -> Option<(RouteOrigin, &'a PayloadInfo)> { unimplemented!() }
}
