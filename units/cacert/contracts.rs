//@ fn CaCert::root
//@ spec
    ensures
        // C07: a trust anchor certificate starts a chain of depth 0
        res matches Ok(c) ==> c.wf() && c.depth() == 0 && c.parent is None
            && c.cert == cert && c.tal == tal,
//@ fn CaCert::chain
//@ spec
    requires issuer.wf(),
    ensures
        // C07: a CA further than max_depth from its trust anchor is refused
        issuer.depth() + 1 > max_depth ==> res is Err,
        // C07: an accepted CA is exactly one step below its issuer and within the bound
        res matches Ok(c) ==> c.wf() && c.depth() == issuer.depth() + 1 && c.depth() <= max_depth
            && c.chain_len == issuer.chain_len + 1
            && c.parent == Some(*issuer) && c.cert == cert && c.tal == issuer.tal,
//@ fn CaCert::new
//@ spec
    ensures
        res matches Ok(c) ==> c.cert == cert && c.uri == uri && c.parent == parent
            && c.chain_len == chain_len && c.tal == tal
            && Some(&c.ca_repository) == cert.ca_repository_spec()
            && Some(&c.rpki_manifest) == cert.rpki_manifest_spec(),
        res is Err <==> (cert.ca_repository_spec() is None || cert.rpki_manifest_spec() is None),
//@ fn CaCert::check_loop
//@ spec
    ensures
        // C07: refused exactly if the certificate's key is the key of this CA or of an ancestor
        res is Ok <==> !self.key_on_chain(cert.ski_spec()),
//@ fn CaCert::_check_loop
//@ spec
    ensures
        // C07: refused exactly if the key is the key of this CA or of an ancestor
        res is Ok <==> !self.key_on_chain(key_id),
    decreases self,
//@ fn CaCert::cert
//@ spec
    ensures res == &self.cert,
//@ fn CaCert::uri
//@ spec
    ensures res == &self.uri,
//@ fn CaCert::ca_repository
//@ spec
    ensures res == &self.ca_repository,
//@ fn CaCert::rpki_manifest
//@ spec
    ensures res == &self.rpki_manifest,
//@ fn CaCert::rpki_notify
//@ spec
    ensures res == self.cert.rpki_notify_spec(),
//@ fn RunFailed::fatal
//@ spec
    ensures res == (RunFailed { fatal: true }),
//@ fn RunFailed::retry
//@ spec
    ensures res == (RunFailed { fatal: false }),
//@ fn RunFailed::is_fatal
//@ spec
    ensures res == self.fatal,
//@ fn RunFailed::should_retry
//@ spec
    ensures res == !self.fatal,
//@ global
impl CaCert {
    // Number of certificates between this one and its trust anchor.
    spec fn depth(&self) -> nat
        decreases self
    {
        match self.parent {
            Some(p) => p.depth() + 1,
            None => 0,
        }
    }

    // chain_len is the real distance from the trust anchor, all the way up.
    spec fn wf(&self) -> bool
        decreases self
    {
        &&& self.chain_len == self.depth()
        &&& match self.parent {
                Some(p) => p.wf(),
                None => true,
            }
    }

    // `k` identifies the key of this certificate or of one of its ancestors.
    spec fn key_on_chain(&self, k: KeyIdentifier) -> bool
        decreases self
    {
        self.cert.ski_spec().id() == k.id() || match self.parent {
            Some(p) => p.key_on_chain(k),
            None => false,
        }
    }
}
