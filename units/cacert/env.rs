// Environment of unit `cacert`: opaque rpki types and ASSUMED contracts of
// the accessors CaCert::{new, check_loop, _check_loop} call.

#[verifier::external_body] pub struct RsyncUri { _opaque: () }
#[verifier::external_body] pub struct HttpsUri { _opaque: () }
#[verifier::external_body] pub struct Cert { _opaque: () }
#[verifier::external_body] pub struct ResourceCert { _opaque: () }

// rpki::crypto::keys::KeyIdentifier: a 20 byte array newtype with derived
// Eq. Abstracted to its identity (`id`); equality is structural.
#[verifier::external_body] pub struct KeyIdentifier { _opaque: () }

// rpki::repository::tal::TalUri (declared here: the type lives in the rpki
// crate; CaCert::chain constructs the Rsync variant).
pub enum TalUri {
    Rsync(RsyncUri),
    Https(HttpsUri),
}

impl KeyIdentifier {
    pub uninterp spec fn id(&self) -> int;
}
impl PartialEqSpecImpl for KeyIdentifier {
    open spec fn obeys_eq_spec() -> bool { true }
    open spec fn eq_spec(&self, other: &KeyIdentifier) -> bool { self.id() == other.id() }
}
impl PartialEq for KeyIdentifier {
    #[verifier::external_body]
    fn eq(&self, other: &Self) -> bool { unimplemented!() }
}

impl Cert {
    pub uninterp spec fn ski_spec(&self) -> KeyIdentifier;

    #[verifier::external_body]
    pub fn subject_key_identifier(&self) -> (r: KeyIdentifier)
        ensures r == self.ski_spec(),
    { unimplemented!() }
}

impl ResourceCert {
    pub uninterp spec fn ski_spec(&self) -> KeyIdentifier;
    pub uninterp spec fn ca_repository_spec(&self) -> Option<&RsyncUri>;
    pub uninterp spec fn rpki_manifest_spec(&self) -> Option<&RsyncUri>;

    #[verifier::external_body]
    pub fn subject_key_identifier(&self) -> (r: KeyIdentifier)
        ensures r == self.ski_spec(),
    { unimplemented!() }

    #[verifier::external_body]
    pub fn ca_repository(&self) -> (r: Option<&RsyncUri>)
        ensures r == self.ca_repository_spec(),
    { unimplemented!() }

    #[verifier::external_body]
    pub fn rpki_manifest(&self) -> (r: Option<&RsyncUri>)
        ensures r == self.rpki_manifest_spec(),
    { unimplemented!() }
}

impl Clone for RsyncUri {
    #[verifier::external_body]
    fn clone(&self) -> (r: RsyncUri)
        ensures r == *self,
    { unimplemented!() }
}
