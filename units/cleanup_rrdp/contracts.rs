//@ fn Run::keep_repository
//@ entry
    broadcast use uri_https_key_model;
    broadcast use vstd::std_specs::hash::group_hash_axioms;
//@ spec
    ensures
        // C40: an archive is kept exactly if its recorded rpkiNotify URI is in the retention set
        res matches Ok(b) ==> (archive_notify(path.p) matches Some(u) && b == retain@.contains(u)),
//@ fn Run::cleanup_authority
//@ spec
    requires
        retain_set().subset_of(retain@),
//@ entry
    broadcast use uri_https_key_model;
    broadcast use vstd::std_specs::hash::group_hash_axioms;
//@ loopvar 1 it
//@ loop 1
    invariant
        retain_set().subset_of(retain@),
//@ fn Run::cleanup
//@ spec
    requires
        // ghost naming of the final retention set: registered by the store, plus updated in this run
        retain_set() == old(retain)@.union(self.updated.view()@.dom()),
        layout(self.collector.working_dir.p),
    ensures
        // C40: every repository registered by the store or updated in this run is in the set
        // the deletion decisions were taken with
        old(retain)@.union(self.updated.view()@.dom()).subset_of(final(retain)@),
//@ entry
    broadcast use uri_https_key_model;
    broadcast use vstd::std_specs::hash::group_hash_axioms;
//@ loopvar 1 ku
//@ loop 1
    invariant
        old(retain)@.subset_of(retain@),
        forall|i: int| 0 <= i < ku.index@ ==> retain@.contains(*(#[trigger] ku.seq()[i])),
        forall|k: UriHttps| self.updated.view()@.dom().contains(k) ==> ku.seq().contains(&k),
//@ loopentry 1
    broadcast use uri_https_key_model;
    broadcast use vstd::std_specs::hash::group_hash_axioms;
//@ loopvar 2 it
//@ loop 2
    invariant
        retain_set().subset_of(retain@),
        old(retain)@.union(self.updated.view()@.dom()).subset_of(retain@),
        lists_seq(it.seq(), self.collector.working_dir.p),
        layout(self.collector.working_dir.p),
//@ fn RunFailed::fatal
//@ spec
    ensures res.fatal,
//@ fn RunFailed::retry
//@ spec
    ensures !res.fatal,
//@ fn RunFailed::is_fatal
//@ spec
    ensures res == self.fatal,
//@ fn RunFailed::should_retry
//@ spec
    ensures res == !self.fatal,
//@ global
// Entries directly in the RRDP working directory are not archives.
spec fn layout(wd: Path) -> bool {
    forall|i: int| 0 <= i < listing(wd).len() ==> !is_archive_location((#[trigger] listing(wd)[i]).path_spec())
}
impl<'a> Run<'a> {
    #[verifier::external_body]
    fn cleanup_tmp(&self, path: &Path) -> (r: Result<(), Fatal>) { unimplemented!() }
}
