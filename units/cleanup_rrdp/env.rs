// Environment of unit `cleanup_rrdp` (C40, RRDP collector). Everything here is ASSUMED.

// ---- opaque data ----------------------------------------------------------
#[verifier::external_body] #[derive(PartialEq, Eq, Hash)] pub struct UriHttps { _opaque: () }
impl Clone for UriHttps {
    #[verifier::external_body]
    fn clone(&self) -> (r: Self) ensures r == *self { unimplemented!() }
}
// uri::Https hashes and compares by value (derive-like Hash/Eq in rpki).
pub broadcast axiom fn uri_https_key_model()
    ensures #[trigger] vstd::std_specs::hash::obeys_key_model::<UriHttps>();

#[verifier::external_body] pub struct HttpClient { _opaque: () }
#[verifier::external_body] pub struct RrdpConfig { _opaque: () }
#[verifier::external_body] pub struct Repository { _opaque: () }
#[verifier::external_body] pub struct ReadRepository { _opaque: () }
#[verifier::external_body] pub struct RrdpRepositoryMetrics { _opaque: () }
#[verifier::external_body] pub struct Uuid { _opaque: () }
#[verifier::external_body] pub struct Bytes { _opaque: () }
pub mod rrdp { #[verifier::external_body] pub struct Hash { _opaque: () } }

// utils::sync::{RwLock, Mutex}: `read()` is modelled as handing out a shared
// reference to the protected value (cleanup runs after all workers finished).
#[verifier::external_body] #[verifier::reject_recursive_types(T)] pub struct RwLock<T> { _t: T }
impl<T> RwLock<T> {
    pub uninterp spec fn view(&self) -> T;
    #[verifier::external_body]
    pub fn read(&self) -> (r: &T) ensures *r == self.view() { unimplemented!() }
}
#[verifier::external_body] #[verifier::reject_recursive_types(T)] pub struct Mutex<T> { _t: T }

impl vstd::std_specs::convert::FromSpecImpl<Failed> for Fatal {
    open spec fn obeys_from_spec() -> bool { true }
    open spec fn from_spec(v: Failed) -> Fatal { Fatal }
}
impl From<Failed> for Fatal {
    #[verifier::external_body]
    fn from(value: Failed) -> Fatal { unimplemented!() }
}
impl vstd::std_specs::convert::FromSpecImpl<Fatal> for Failed {
    open spec fn obeys_from_spec() -> bool { true }
    open spec fn from_spec(v: Fatal) -> Failed { Failed }
}
impl From<Fatal> for Failed {
    #[verifier::external_body]
    fn from(value: Fatal) -> Failed { unimplemented!() }
}
impl vstd::std_specs::convert::FromSpecImpl<Fatal> for RunFailed {
    open spec fn obeys_from_spec() -> bool { false }
    open spec fn from_spec(v: Fatal) -> RunFailed { arbitrary() }
}
impl From<Fatal> for RunFailed {
    #[verifier::external_body]
    fn from(value: Fatal) -> RunFailed { unimplemented!() }
}
impl vstd::std_specs::convert::FromSpecImpl<Failed> for RunFailed {
    open spec fn obeys_from_spec() -> bool { false }
    open spec fn from_spec(v: Failed) -> RunFailed { arbitrary() }
}
impl From<Failed> for RunFailed {
    #[verifier::external_body]
    fn from(value: Failed) -> RunFailed { unimplemented!() }
}

// ---- paths ------------------------------------------------------------------
#[verifier::external_body] pub struct Path { _opaque: () }
pub struct PathBuf { pub p: Path }
impl std::ops::Deref for PathBuf {
    type Target = Path;
    #[verifier::external_body]
    fn deref(&self) -> (r: &Path) ensures *r == self.p { unimplemented!() }
}
impl Clone for PathBuf {
    #[verifier::external_body]
    fn clone(&self) -> (r: PathBuf) ensures r == *self { unimplemented!() }
}
impl PathBuf {
    #[verifier::external_body]
    pub fn join(&self, name: &str) -> (r: PathBuf) { unimplemented!() }
    #[verifier::external_body]
    pub fn push(&mut self, name: &str) { unimplemented!() }
    #[verifier::external_body]
    pub fn as_path(&self) -> (r: &Path) ensures *r == self.p { unimplemented!() }
}
impl Path {
    #[verifier::external_body]
    pub fn to_path_buf(&self) -> (r: PathBuf) ensures r.p == *self { unimplemented!() }
    #[verifier::external_body]
    pub fn join(&self, name: &str) -> (r: PathBuf) { unimplemented!() }
    #[verifier::external_body]
    pub fn file_name(&self) -> (r: Option<&OsStr>) { unimplemented!() }
    // file-system queries: nothing is known about their answers
    #[verifier::external_body]
    pub fn is_dir(&self) -> (r: bool) { unimplemented!() }
    #[verifier::external_body]
    pub fn is_file(&self) -> (r: bool) { unimplemented!() }
    #[verifier::external_body]
    pub fn exists(&self) -> (r: bool) { unimplemented!() }
}
// anything that names a path (std: AsRef<Path>)
pub trait AsPath { spec fn pv(&self) -> Path; }
impl<'a> AsPath for &'a Path { open spec fn pv(&self) -> Path { **self } }
impl<'a> AsPath for &'a PathBuf { open spec fn pv(&self) -> Path { self.p } }

#[verifier::external_body] pub struct OsStr { _opaque: () }
impl PartialEqSpecImpl<str> for OsStr {
    open spec fn obeys_eq_spec() -> bool { false }
    open spec fn eq_spec(&self, other: &str) -> bool { arbitrary() }
}
impl OsStr {
    #[verifier::external_body]
    pub fn to_str(&self) -> (r: Option<&str>) { unimplemented!() }
}
impl PartialEq<str> for OsStr {
    #[verifier::external_body]
    fn eq(&self, other: &str) -> bool { unimplemented!() }
}

// fatal::DirEntry
#[verifier::external_body] pub struct DirEntry { _opaque: () }
impl DirEntry {
    pub uninterp spec fn path_spec(&self) -> Path;
    pub uninterp spec fn is_dir_spec(&self) -> bool;
    pub uninterp spec fn is_file_spec(&self) -> bool;
    #[verifier::external_body]
    pub fn path(&self) -> (r: &Path) ensures *r == self.path_spec() { unimplemented!() }
    #[verifier::external_body]
    pub fn into_path(self) -> (r: PathBuf) ensures r.p == self.path_spec() { unimplemented!() }
    #[verifier::external_body]
    pub fn is_dir(&self) -> (r: bool) ensures r == self.is_dir_spec() { unimplemented!() }
    #[verifier::external_body]
    pub fn is_file(&self) -> (r: bool) ensures r == self.is_file_spec() { unimplemented!() }
    #[verifier::external_body]
    pub fn file_name(&self) -> (r: &OsStr) { unimplemented!() }
    #[verifier::external_body]
    pub fn len(&self) -> (r: u64) { unimplemented!() }
}
pub uninterp spec fn listing(dir: Path) -> Seq<DirEntry>;

#[verifier::external_body] pub struct ReadDir<'a> { _opaque: &'a () }
impl<'a> ReadDir<'a> {
    pub uninterp spec fn rem(&self) -> Seq<Result<DirEntry, Fatal>>;
}
impl<'a> Iterator for ReadDir<'a> {
    type Item = Result<DirEntry, Fatal>;
    #[verifier::external_body]
    fn next(&mut self) -> Option<Result<DirEntry, Fatal>> { unimplemented!() }
}
impl<'a> IteratorSpecImpl for ReadDir<'a> {
    open spec fn obeys_prophetic_iter_laws(&self) -> bool { true }
    #[verifier::prophetic]
    open spec fn remaining(&self) -> Seq<Result<DirEntry, Fatal>> { self.rem() }
    #[verifier::prophetic]
    open spec fn will_return_none(&self) -> bool { true }
    open spec fn decrease(&self) -> Option<nat> { Some(self.rem().len()) }
    open spec fn peek(&self, i: int) -> Option<Result<DirEntry, Fatal>> { None }
}
pub open spec fn lists_seq(s: Seq<Result<DirEntry, Fatal>>, dir: Path) -> bool {
    &&& s.len() == listing(dir).len()
    &&& forall|i: int| 0 <= i < s.len() ==> ((#[trigger] s[i]) matches Ok(e) ==> e == listing(dir)[i])
}
#[verifier::external_body]
pub fn fatal_read_dir<'a>(path: &'a Path) -> (r: Result<ReadDir<'a>, Fatal>)
    ensures r matches Ok(d) ==> lists_seq(d.rem(), *path),
{ unimplemented!() }

#[verifier::external_body] pub struct IoError { _opaque: () }
#[derive(Structural, PartialEq, Eq)]
pub enum ErrorKind { NotFound, UnexpectedEof, Other }
impl IoError {
    #[verifier::external_body]
    pub fn kind(&self) -> (r: ErrorKind) { unimplemented!() }
}

// ---- archives and deletion permissions ------------------------------------
// The rpkiNotify URI recorded in the RRDP archive file at `p` (None: not a readable archive).
pub uninterp spec fn archive_notify(p: Path) -> Option<UriHttps>;
// p is a place where Collector::repository_path puts archives.
pub uninterp spec fn is_archive_location(p: Path) -> bool;
// The final retention set of this cleanup.
pub uninterp spec fn retain_set() -> Set<UriHttps>;
// C40: the archive at p belongs to a repository that a retained point or this run uses.
pub open spec fn archive_in_use(p: Path) -> bool {
    is_archive_location(p) && (archive_notify(p) matches Some(u) && retain_set().contains(u))
}
#[verifier::external_body]
pub fn fs_remove_file<P: AsPath>(path: P) -> (r: Result<(), IoError>)
    requires !archive_in_use(path.pv()),
{ unimplemented!() }
// utils::fatal variants of the same primitives carry the same permissions.
#[verifier::external_body]
pub fn fatal_remove_file(path: &Path) -> (r: Result<(), Failed>)
    requires !archive_in_use(*path),
{ unimplemented!() }
#[verifier::external_body]
pub fn fatal_remove_all(path: &Path) -> (r: Result<(), Failed>)
    requires !archive_in_use(*path),
{ unimplemented!() }
#[verifier::external_body]
pub fn fatal_remove_dir_all(path: &Path) -> (r: Result<(), Failed>) { unimplemented!() }
#[verifier::external_body]
pub fn fatal_create_dir_all(path: &Path) -> (r: Result<(), Failed>) { unimplemented!() }
// Stray directories: nothing is claimed about their content (archives are files).
#[verifier::external_body]
pub fn fs_remove_dir_all<P: AsPath>(path: P) -> (r: Result<(), IoError>)
{ unimplemented!() }

#[verifier::external_body] pub struct RrdpArchive { _opaque: () }
impl RrdpArchive {
    pub uninterp spec fn path_spec(&self) -> Path;
    #[verifier::external_body]
    pub fn open(path: Arc<PathBuf>) -> (r: Result<RrdpArchive, RunFailed>)
        ensures r matches Ok(a) ==> a.path_spec() == path.p,
    { unimplemented!() }
    // Like open, but a missing file is Ok(None).
    #[verifier::external_body]
    pub fn try_open(path: Arc<PathBuf>) -> (r: Result<Option<RrdpArchive>, RunFailed>)
        ensures r matches Ok(Some(a)) ==> a.path_spec() == path.p,
    { unimplemented!() }
    #[verifier::external_body]
    pub fn path(&self) -> (r: &Arc<PathBuf>) ensures r.p == self.path_spec() { unimplemented!() }
    #[verifier::external_body]
    fn load_state(&self) -> (r: Result<RepositoryState, RunFailed>)
        ensures r matches Ok(s) ==> archive_notify(self.path_spec()) == Some(s.rpki_notify),
    { unimplemented!() }
}


pub assume_specification<T: ?Sized, A: std::alloc::Allocator> [<std::sync::Arc<T, A> as std::convert::AsRef<T>>::as_ref] (a: &std::sync::Arc<T, A>) -> (r: &T)
    ensures r == &**a,
;
pub assume_specification<T: core::marker::Destruct> [std::mem::drop] (_0: T);
// ---- std functions without a vstd specification (ASSUMED: their std definitions).
// Declared so that a refactoring that starts using one of them is verified, not rejected.
pub assume_specification<T: Ord + core::marker::Destruct> [std::cmp::min] (a: T, b: T) -> (r: T)
    ensures <T as vstd::std_specs::cmp::OrdSpec>::obeys_cmp_spec() ==> r == (if vstd::std_specs::cmp::OrdSpec::cmp_spec(&b, &a) == std::cmp::Ordering::Less { b } else { a }),
;
pub assume_specification<T: Ord + core::marker::Destruct> [std::cmp::max] (a: T, b: T) -> (r: T)
    ensures <T as vstd::std_specs::cmp::OrdSpec>::obeys_cmp_spec() ==> r == (if vstd::std_specs::cmp::OrdSpec::cmp_spec(&b, &a) == std::cmp::Ordering::Less { a } else { b }),
;
pub assume_specification [std::cmp::Ordering::is_lt] (o: std::cmp::Ordering) -> (r: bool)
    ensures r == (o == std::cmp::Ordering::Less);
pub assume_specification [std::cmp::Ordering::is_gt] (o: std::cmp::Ordering) -> (r: bool)
    ensures r == (o == std::cmp::Ordering::Greater);
pub assume_specification [std::cmp::Ordering::is_le] (o: std::cmp::Ordering) -> (r: bool)
    ensures r == (o != std::cmp::Ordering::Greater);
pub assume_specification [std::cmp::Ordering::is_ge] (o: std::cmp::Ordering) -> (r: bool)
    ensures r == (o != std::cmp::Ordering::Less);
pub assume_specification<T: core::marker::Destruct> [bool::then_some] (b: bool, t: T) -> (r: Option<T>)
    ensures r == (if b { Some(t) } else { None::<T> });
pub assume_specification<T: core::marker::Destruct> [std::option::Option::<T>::xor] (a: Option<T>, b: Option<T>) -> (r: Option<T>)
    ensures r == (match (a, b) { (Some(x), None) => Some(x), (None, Some(y)) => Some(y), _ => None::<T> });
pub assume_specification<'a, T: Copy> [std::option::Option::<&T>::copied] (o: Option<&'a T>) -> (r: Option<T>)
    ensures r == (match o { Some(x) => Some(*x), None => None::<T> });
pub assume_specification<T: core::marker::Destruct> [std::option::Option::<T>::or] (a: Option<T>, b: Option<T>) -> (r: Option<T>)
    ensures r == (if a is Some { a } else { b });
pub assume_specification<T: core::marker::Destruct, U: core::marker::Destruct> [std::option::Option::<T>::and] (a: Option<T>, b: Option<U>) -> (r: Option<U>)
    ensures r == (if a is Some { b } else { None::<U> });
pub assume_specification<T: core::marker::Destruct, U: core::marker::Destruct> [std::option::Option::<T>::zip] (a: Option<T>, b: Option<U>) -> (r: Option<(T, U)>)
    ensures r == (match (a, b) { (Some(x), Some(y)) => Some((x, y)), _ => None::<(T, U)> });
pub assume_specification<T, F: FnOnce(T) -> bool + core::marker::Destruct> [std::option::Option::<T>::is_some_and] (o: Option<T>, f: F) -> (r: bool)
    requires o matches Some(x) ==> f.requires((x,)),
    ensures match o { Some(x) => f.ensures((x,), r), None => !r };
pub assume_specification<T, F: FnOnce(T) -> bool + core::marker::Destruct> [std::option::Option::<T>::is_none_or] (o: Option<T>, f: F) -> (r: bool)
    requires o matches Some(x) ==> f.requires((x,)),
    ensures match o { Some(x) => f.ensures((x,), r), None => r };
pub assume_specification<T: core::marker::Destruct, P: FnOnce(&T) -> bool + core::marker::Destruct> [std::option::Option::<T>::filter] (o: Option<T>, p: P) -> (r: Option<T>)
    requires o matches Some(x) ==> p.requires((&x,)),
    ensures match o { Some(x) => (r == Some(x) && p.ensures((&x,), true)) || (r is None && p.ensures((&x,), false)), None => r is None },
        // the predicate returned SOME boolean for the element, and the result follows it
        o is Some ==> exists|__b: bool| p.ensures((&o->Some_0,), __b) && r == (if __b { o } else { None::<T> });
pub assume_specification<T: core::marker::Destruct, F: FnOnce() -> Option<T> + core::marker::Destruct> [std::option::Option::<T>::or_else] (o: Option<T>, f: F) -> (r: Option<T>)
    requires o is None ==> f.requires(()),
    ensures match o { Some(x) => r == o, None => f.ensures((), r) };
pub assume_specification<T, U: core::marker::Destruct, F: FnOnce(T) -> U + core::marker::Destruct> [std::option::Option::<T>::map_or] (o: Option<T>, d: U, f: F) -> (r: U)
    requires o matches Some(x) ==> f.requires((x,)),
    ensures match o { Some(x) => f.ensures((x,), r), None => r == d };
pub assume_specification<T, U, D: FnOnce() -> U + core::marker::Destruct, F: FnOnce(T) -> U + core::marker::Destruct> [std::option::Option::<T>::map_or_else] (o: Option<T>, d: D, f: F) -> (r: U)
    requires o matches Some(x) ==> f.requires((x,)), o is None ==> d.requires(()),
    ensures match o { Some(x) => f.ensures((x,), r), None => d.ensures((), r) };
pub assume_specification<T: core::marker::Destruct, E: core::marker::Destruct> [std::result::Result::<T, E>::unwrap_or] (x: Result<T, E>, d: T) -> (r: T)
    ensures r == (match x { Ok(v) => v, Err(_) => d });
pub assume_specification<T, E: core::marker::Destruct, F: core::marker::Destruct> [std::result::Result::<T, E>::or] (a: Result<T, E>, b: Result<T, F>) -> (r: Result<T, F>)
    ensures match a { Ok(v) => r == Ok::<T, F>(v), Err(_) => r == b };
pub assume_specification<T, E, U, F: FnOnce(T) -> Result<U, E> + core::marker::Destruct> [std::result::Result::<T, E>::and_then] (x: Result<T, E>, f: F) -> (r: Result<U, E>)
    requires x matches Ok(v) ==> f.requires((v,)),
    ensures match x { Ok(v) => f.ensures((v,), r), Err(e) => r == Err::<U, E>(e) };
pub assume_specification<T, E: core::marker::Destruct, F: FnOnce(T) -> bool + core::marker::Destruct> [std::result::Result::<T, E>::is_ok_and] (x: Result<T, E>, f: F) -> (r: bool)
    requires x matches Ok(v) ==> f.requires((v,)),
    ensures match x { Ok(v) => f.ensures((v,), r), Err(_) => !r };
pub assume_specification<T, E, F: FnOnce(E) -> T + core::marker::Destruct> [std::result::Result::<T, E>::unwrap_or_else] (x: Result<T, E>, f: F) -> (r: T)
    requires x matches Err(e) ==> f.requires((e,)),
    ensures match x { Ok(v) => r == v, Err(e) => f.ensures((e,), r) };
pub assume_specification<T> [std::mem::replace] (dest: &mut T, src: T) -> (r: T)
    ensures r == *old(dest), *final(dest) == src;
pub assume_specification<T: Default + core::marker::Destruct, E: core::marker::Destruct> [std::result::Result::<T, E>::unwrap_or_default] (x: Result<T, E>) -> (r: T)
    ensures x matches Ok(v) ==> r == v;
pub assume_specification<T, E, U: core::marker::Destruct, F: FnOnce(T) -> U + core::marker::Destruct> [std::result::Result::<T, E>::map_or] (x: Result<T, E>, d: U, f: F) -> (r: U)
    requires x matches Ok(v) ==> f.requires((v,)),
    ensures match x { Ok(v) => f.ensures((v,), r), Err(_) => r == d };
pub assume_specification [<std::cmp::Ordering as PartialEq>::eq] (a: &std::cmp::Ordering, b: &std::cmp::Ordering) -> (r: bool)
    ensures r == (*a == *b);
