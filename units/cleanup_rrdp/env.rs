// Environment of unit `cleanup_rrdp` (C40, RRDP collector). Everything here is ASSUMED.

// ---- opaque data ----------------------------------------------------------
#[verifier::external_body] #[derive(PartialEq, Eq, Hash)] pub struct UriHttps { _opaque: () }
impl Clone for UriHttps {
    #[verifier::external_body]
    fn clone(&self) -> (r: Self) ensures r == *self { unimplemented!() }
}
// uri::Https hashes and compares by value (derive-like Hash/Eq in rpki).
pub broadcast axiom fn uri_https_key_model()
    ensures #[trigger] vstd::std_specs::hash::obeys_key_model::<UriHttps>();

#[verifier::external_body] pub struct HttpClient { _opaque: () }
#[verifier::external_body] pub struct RrdpConfig { _opaque: () }
#[verifier::external_body] pub struct Repository { _opaque: () }
#[verifier::external_body] pub struct ReadRepository { _opaque: () }
#[verifier::external_body] pub struct RrdpRepositoryMetrics { _opaque: () }
#[verifier::external_body] pub struct Uuid { _opaque: () }
#[verifier::external_body] pub struct Bytes { _opaque: () }
pub mod rrdp { #[verifier::external_body] pub struct Hash { _opaque: () } }

// utils::sync::{RwLock, Mutex}: `read()` is modelled as handing out a shared
// reference to the protected value (cleanup runs after all workers finished).
#[verifier::external_body] #[verifier::reject_recursive_types(T)] pub struct RwLock<T> { _t: T }
impl<T> RwLock<T> {
    pub uninterp spec fn view(&self) -> T;
    #[verifier::external_body]
    pub fn read(&self) -> (r: &T) ensures *r == self.view() { unimplemented!() }
}
#[verifier::external_body] #[verifier::reject_recursive_types(T)] pub struct Mutex<T> { _t: T }

// ---- paths ------------------------------------------------------------------
#[verifier::external_body] pub struct Path { _opaque: () }
pub struct PathBuf { pub p: Path }
impl std::ops::Deref for PathBuf {
    type Target = Path;
    #[verifier::external_body]
    fn deref(&self) -> (r: &Path) ensures *r == self.p { unimplemented!() }
}
// anything that names a path (std: AsRef<Path>)
pub trait AsPath { spec fn pv(&self) -> Path; }
impl<'a> AsPath for &'a Path { open spec fn pv(&self) -> Path { **self } }
impl<'a> AsPath for &'a PathBuf { open spec fn pv(&self) -> Path { self.p } }

#[verifier::external_body] pub struct OsStr { _opaque: () }
impl PartialEqSpecImpl<str> for OsStr {
    open spec fn obeys_eq_spec() -> bool { false }
    open spec fn eq_spec(&self, other: &str) -> bool { arbitrary() }
}
impl PartialEq<str> for OsStr {
    #[verifier::external_body]
    fn eq(&self, other: &str) -> bool { unimplemented!() }
}

// fatal::DirEntry
#[verifier::external_body] pub struct DirEntry { _opaque: () }
impl DirEntry {
    pub uninterp spec fn path_spec(&self) -> Path;
    pub uninterp spec fn is_dir_spec(&self) -> bool;
    pub uninterp spec fn is_file_spec(&self) -> bool;
    #[verifier::external_body]
    pub fn path(&self) -> (r: &Path) ensures *r == self.path_spec() { unimplemented!() }
    #[verifier::external_body]
    pub fn into_path(self) -> (r: PathBuf) ensures r.p == self.path_spec() { unimplemented!() }
    #[verifier::external_body]
    pub fn is_dir(&self) -> (r: bool) ensures r == self.is_dir_spec() { unimplemented!() }
    #[verifier::external_body]
    pub fn is_file(&self) -> (r: bool) ensures r == self.is_file_spec() { unimplemented!() }
    #[verifier::external_body]
    pub fn file_name(&self) -> (r: &OsStr) { unimplemented!() }
}
pub uninterp spec fn listing(dir: Path) -> Seq<DirEntry>;

#[verifier::external_body] pub struct ReadDir<'a> { _opaque: &'a () }
impl<'a> ReadDir<'a> {
    pub uninterp spec fn rem(&self) -> Seq<Result<DirEntry, Fatal>>;
}
impl<'a> Iterator for ReadDir<'a> {
    type Item = Result<DirEntry, Fatal>;
    #[verifier::external_body]
    fn next(&mut self) -> Option<Result<DirEntry, Fatal>> { unimplemented!() }
}
impl<'a> IteratorSpecImpl for ReadDir<'a> {
    open spec fn obeys_prophetic_iter_laws(&self) -> bool { true }
    #[verifier::prophetic]
    open spec fn remaining(&self) -> Seq<Result<DirEntry, Fatal>> { self.rem() }
    #[verifier::prophetic]
    open spec fn will_return_none(&self) -> bool { true }
    open spec fn decrease(&self) -> Option<nat> { Some(self.rem().len()) }
    open spec fn peek(&self, i: int) -> Option<Result<DirEntry, Fatal>> { None }
}
pub open spec fn lists_seq(s: Seq<Result<DirEntry, Fatal>>, dir: Path) -> bool {
    &&& s.len() == listing(dir).len()
    &&& forall|i: int| 0 <= i < s.len() ==> ((#[trigger] s[i]) matches Ok(e) ==> e == listing(dir)[i])
}
#[verifier::external_body]
pub fn fatal_read_dir<'a>(path: &'a Path) -> (r: Result<ReadDir<'a>, Fatal>)
    ensures r matches Ok(d) ==> lists_seq(d.rem(), *path),
{ unimplemented!() }

#[verifier::external_body] pub struct IoError { _opaque: () }

// ---- archives and deletion permissions ------------------------------------
// The rpkiNotify URI recorded in the RRDP archive file at `p` (None: not a readable archive).
pub uninterp spec fn archive_notify(p: Path) -> Option<UriHttps>;
// p is a place where Collector::repository_path puts archives.
pub uninterp spec fn is_archive_location(p: Path) -> bool;
// The final retention set of this cleanup.
pub uninterp spec fn retain_set() -> Set<UriHttps>;
// C40: the archive at p belongs to a repository that a retained point or this run uses.
pub open spec fn archive_in_use(p: Path) -> bool {
    is_archive_location(p) && (archive_notify(p) matches Some(u) && retain_set().contains(u))
}
#[verifier::external_body]
pub fn fs_remove_file<P: AsPath>(path: P) -> (r: Result<(), IoError>)
    requires !archive_in_use(path.pv()),
{ unimplemented!() }
// Stray directories: nothing is claimed about their content (archives are files).
#[verifier::external_body]
pub fn fs_remove_dir_all<P: AsPath>(path: P) -> (r: Result<(), IoError>)
{ unimplemented!() }

#[verifier::external_body] pub struct RrdpArchive { _opaque: () }
impl RrdpArchive {
    pub uninterp spec fn path_spec(&self) -> Path;
    #[verifier::external_body]
    pub fn open(path: Arc<PathBuf>) -> (r: Result<RrdpArchive, RunFailed>)
        ensures r matches Ok(a) ==> a.path_spec() == path.p,
    { unimplemented!() }
    #[verifier::external_body]
    fn load_state(&self) -> (r: Result<RepositoryState, RunFailed>)
        ensures r matches Ok(s) ==> archive_notify(self.path_spec()) == Some(s.rpki_notify),
    { unimplemented!() }
}
impl RunFailed {
    #[verifier::external_body]
    fn should_retry(self) -> (r: bool) ensures r == !self.fatal { unimplemented!() }
}

pub assume_specification<T: ?Sized, A: std::alloc::Allocator> [<std::sync::Arc<T, A> as std::convert::AsRef<T>>::as_ref] (a: &std::sync::Arc<T, A>) -> (r: &T)
    ensures r == &**a,
;
