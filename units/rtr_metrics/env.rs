// Environment of unit `rtr_metrics` (C36).

#[verifier::external_body] pub struct RtrMetricsData { _opaque: () }
impl Default for RtrMetricsData {
    #[verifier::external_body] fn default() -> Self { unimplemented!() }
}
#[verifier::external_body] #[verifier::reject_recursive_types(T)] pub struct Mutex<T> { _t: T }
#[verifier::external_body] #[verifier::reject_recursive_types(T)] pub struct MutexGuard<'a, T> { _t: &'a T }
#[verifier::external_body] #[verifier::reject_recursive_types(T)] pub struct ArcSwap<T> { _t: T }

// std::net::IpAddr: a totally ordered value (Ord consistent with Eq) -- ASSUMED.
#[derive(Clone, Copy)]
#[verifier::external_body] pub struct IpAddr { _opaque: () }
pub uninterp spec fn ip_key(a: IpAddr) -> int;
pub broadcast axiom fn axiom_ip_key_injective(a: IpAddr, b: IpAddr)
    ensures #[trigger] ip_key(a) == #[trigger] ip_key(b) ==> a == b;
pub open spec fn ip_cmp(a: IpAddr, b: IpAddr) -> Ordering {
    if ip_key(a) < ip_key(b) { Ordering::Less } else if ip_key(a) == ip_key(b) { Ordering::Equal } else { Ordering::Greater }
}
impl PartialEqSpecImpl for IpAddr {
    open spec fn obeys_eq_spec() -> bool { true }
    open spec fn eq_spec(&self, other: &IpAddr) -> bool { ip_key(*self) == ip_key(*other) }
}
impl PartialEq for IpAddr { #[verifier::external_body] fn eq(&self, other: &Self) -> bool { unimplemented!() } }
impl Eq for IpAddr {}
impl PartialOrdSpecImpl for IpAddr {
    open spec fn obeys_partial_cmp_spec() -> bool { true }
    open spec fn partial_cmp_spec(&self, other: &IpAddr) -> Option<Ordering> { Some(ip_cmp(*self, *other)) }
}
impl PartialOrd for IpAddr { #[verifier::external_body] fn partial_cmp(&self, other: &IpAddr) -> Option<Ordering> { unimplemented!() } }
impl OrdSpecImpl for IpAddr {
    open spec fn obeys_cmp_spec() -> bool { true }
    open spec fn cmp_spec(&self, other: &IpAddr) -> Ordering { ip_cmp(*self, *other) }
}
impl Ord for IpAddr { #[verifier::external_body] fn cmp(&self, other: &IpAddr) -> Ordering { unimplemented!() } }

// ---- the registry: an ArcSwap holding the sorted list of (address, metrics) pairs, and the
// mutex that serialises writers. Lock protocol as monotone ghost facts (order-free):
//   was_loaded(s, v)     v was the content of s at some time
//   has_entry(s, a, m)   the pair (a, m) is in the content of s; stable because the guarantee
//                        of `store` (below) never removes or replaces an entry
//   lock_acquired(mx)    this call acquired mx
pub uninterp spec fn was_loaded(s: &ArcSwap<Vec<(IpAddr, Arc<RtrMetricsData>)>>, v: Seq<(IpAddr, Arc<RtrMetricsData>)>) -> bool;
pub uninterp spec fn has_entry(s: &ArcSwap<Vec<(IpAddr, Arc<RtrMetricsData>)>>, a: IpAddr, m: Arc<RtrMetricsData>) -> bool;
pub uninterp spec fn lock_acquired<T>(mx: &Mutex<T>) -> bool;
// the mutex that guards writes to this ArcSwap (a ghost link between the two fields)
pub uninterp spec fn writer_mutex(s: &ArcSwap<Vec<(IpAddr, Arc<RtrMetricsData>)>>) -> &Mutex<()>;

// I: the list is strictly sorted by address (hence no address twice)
pub open spec fn sorted_strict(v: Seq<(IpAddr, Arc<RtrMetricsData>)>) -> bool {
    forall|i: int, j: int| 0 <= i < j < v.len() ==> ip_key(#[trigger] v[i].0) < ip_key(#[trigger] v[j].0)
}
// n is v with one pair inserted at position k; all pairs of v are kept as they are
pub open spec fn is_insert(v: Seq<(IpAddr, Arc<RtrMetricsData>)>, n: Seq<(IpAddr, Arc<RtrMetricsData>)>, k: int) -> bool {
    &&& 0 <= k <= v.len() && n.len() == v.len() + 1
    &&& forall|i: int| 0 <= i < k ==> #[trigger] n[i] == v[i]
    &&& forall|i: int| k <= i < v.len() ==> n[i + 1] == #[trigger] v[i]
}

impl<T> Mutex<T> {
    #[verifier::external_body]
    pub fn lock(&self) -> (g: MutexGuard<'_, T>) ensures lock_acquired(self) { unimplemented!() }
}
impl ArcSwap<Vec<(IpAddr, Arc<RtrMetricsData>)>> {
    // arc_swap::ArcSwap::load: returns the current content (really a Guard that derefs to the
    // Arc; declared as the Arc here). Havoc on load: any list satisfying I and containing every
    // entry known to be present.
    #[verifier::external_body]
    pub fn load(&self) -> (r: Arc<Vec<(IpAddr, Arc<RtrMetricsData>)>>)
        ensures
            sorted_strict(r@), was_loaded(self, r@),
            // an allocated Vec of 24-byte pairs is far shorter than usize::MAX
            r@.len() < usize::MAX,
            forall|i: int| 0 <= i < r@.len() ==> has_entry(self, (#[trigger] r@[i]).0, r@[i].1),
    { unimplemented!() }
    // arc_swap::ArcSwap::store. Guarantee conditions of the protocol:
    #[verifier::external_body]
    pub fn store(&self, new: Arc<Vec<(IpAddr, Arc<RtrMetricsData>)>>)
        requires
            // C36: only a writer holding the write mutex stores
            lock_acquired(writer_mutex(self)),
            // C36: what is stored is sorted and duplicate free ...
            sorted_strict(new@),
            // C36: ... and is a loaded list plus exactly one pair: no address is lost or replaced
            exists|v: Seq<(IpAddr, Arc<RtrMetricsData>)>, k: int| #[trigger] was_loaded(self, v) && #[trigger] is_insert(v, new@, k),
        ensures
            forall|i: int| 0 <= i < new@.len() ==> has_entry(self, (#[trigger] new@[i]).0, new@[i].1),
    { unimplemented!() }
}

// ---- <[T]>::binary_search_by (std), ASSUMED, stated through the comparator's own contract:
// Ok(i): the comparator answers Equal for element i. Err(i): if the comparator's answers are
// monotone along the slice (Less <= Equal <= Greater, i.e. the slice is sorted for it), i is the
// partition point: Less before i, Greater from i on.
pub open spec fn ord_rank(o: Ordering) -> int {
    match o { Ordering::Less => 0, Ordering::Equal => 1, Ordering::Greater => 2 }
}
pub assume_specification<'a, T, F> [ <[T]>::binary_search_by ] (s: &'a [T], f: F) -> (r: Result<usize, usize>)
    where F: FnMut(&'a T) -> Ordering,
    ensures
        r matches Ok(i) ==> i < s@.len() && f.ensures((&s@[i as int],), Ordering::Equal),
        r matches Err(i) ==> i <= s@.len(),
        (forall|j: int, k: int, o1: Ordering, o2: Ordering| 0 <= j < k < s@.len()
            && #[trigger] f.ensures((&s@[j],), o1) && #[trigger] f.ensures((&s@[k],), o2) ==> ord_rank(o1) <= ord_rank(o2))
        ==> (r matches Err(i) ==>
                (forall|j: int, o: Ordering| 0 <= j < i && #[trigger] f.ensures((&s@[j],), o) ==> o == Ordering::Less)
             && (forall|j: int, o: Ordering| i <= j < s@.len() && #[trigger] f.ensures((&s@[j],), o) ==> o == Ordering::Greater)),
;
