// Environment of unit `rtr_metrics` (C36).

#[verifier::external_body] pub struct RtrMetricsData { _opaque: () }
impl Default for RtrMetricsData {
    #[verifier::external_body] fn default() -> Self { unimplemented!() }
}
#[verifier::external_body] #[verifier::reject_recursive_types(T)] pub struct Mutex<T> { _t: T }
#[verifier::external_body] #[verifier::reject_recursive_types(T)] pub struct MutexGuard<'a, T> { _t: &'a T }
#[verifier::external_body] #[verifier::reject_recursive_types(T)] pub struct ArcSwap<T> { _t: T }

// std::net::IpAddr: a totally ordered value (Ord consistent with Eq) -- ASSUMED.
#[derive(Clone, Copy)]
#[verifier::external_body] pub struct IpAddr { _opaque: () }
pub uninterp spec fn ip_key(a: IpAddr) -> int;
pub broadcast axiom fn axiom_ip_key_injective(a: IpAddr, b: IpAddr)
    ensures #[trigger] ip_key(a) == #[trigger] ip_key(b) ==> a == b;
pub open spec fn ip_cmp(a: IpAddr, b: IpAddr) -> Ordering {
    if ip_key(a) < ip_key(b) { Ordering::Less } else if ip_key(a) == ip_key(b) { Ordering::Equal } else { Ordering::Greater }
}
impl PartialEqSpecImpl for IpAddr {
    open spec fn obeys_eq_spec() -> bool { true }
    open spec fn eq_spec(&self, other: &IpAddr) -> bool { ip_key(*self) == ip_key(*other) }
}
impl PartialEq for IpAddr { #[verifier::external_body] fn eq(&self, other: &Self) -> bool { unimplemented!() } }
impl Eq for IpAddr {}
impl PartialOrdSpecImpl for IpAddr {
    open spec fn obeys_partial_cmp_spec() -> bool { true }
    open spec fn partial_cmp_spec(&self, other: &IpAddr) -> Option<Ordering> { Some(ip_cmp(*self, *other)) }
}
impl PartialOrd for IpAddr { #[verifier::external_body] fn partial_cmp(&self, other: &IpAddr) -> Option<Ordering> { unimplemented!() } }
impl OrdSpecImpl for IpAddr {
    open spec fn obeys_cmp_spec() -> bool { true }
    open spec fn cmp_spec(&self, other: &IpAddr) -> Ordering { ip_cmp(*self, *other) }
}
impl Ord for IpAddr { #[verifier::external_body] fn cmp(&self, other: &IpAddr) -> Ordering { unimplemented!() } }

// ---- the registry: an ArcSwap holding the sorted list of (address, metrics) pairs, and the
// mutex that serialises writers. Lock protocol as monotone ghost facts (order-free):
//   was_loaded(s, v)     v was the content of s at some time
//   has_entry(s, a, m)   the pair (a, m) is in the content of s; stable because the guarantee
//                        of `store` (below) never removes or replaces an entry
//   lock_acquired(mx)    this call acquired mx
pub uninterp spec fn was_loaded(s: &ArcSwap<Vec<(IpAddr, Arc<RtrMetricsData>)>>, v: Seq<(IpAddr, Arc<RtrMetricsData>)>) -> bool;
pub uninterp spec fn has_entry(s: &ArcSwap<Vec<(IpAddr, Arc<RtrMetricsData>)>>, a: IpAddr, m: Arc<RtrMetricsData>) -> bool;
pub uninterp spec fn lock_acquired<T>(mx: &Mutex<T>) -> bool;
// the mutex that guards writes to this ArcSwap (a ghost link between the two fields)
pub uninterp spec fn writer_mutex(s: &ArcSwap<Vec<(IpAddr, Arc<RtrMetricsData>)>>) -> &Mutex<()>;

// I: the list is strictly sorted by address (hence no address twice)
pub open spec fn sorted_strict(v: Seq<(IpAddr, Arc<RtrMetricsData>)>) -> bool {
    forall|i: int, j: int| 0 <= i < j < v.len() ==> ip_key(#[trigger] v[i].0) < ip_key(#[trigger] v[j].0)
}
// n is v with the pair e inserted at position k; all pairs of v are kept as they are
pub open spec fn is_insert(v: Seq<(IpAddr, Arc<RtrMetricsData>)>, n: Seq<(IpAddr, Arc<RtrMetricsData>)>, k: int, e: (IpAddr, Arc<RtrMetricsData>)) -> bool {
    &&& 0 <= k <= v.len() && n.len() == v.len() + 1 && n[k] == e
    &&& forall|i: int| 0 <= i < k ==> #[trigger] n[i] == v[i]
    &&& forall|j: int| k < j < n.len() ==> #[trigger] n[j] == v[j - 1]
}

// RtrPerAddrMetrics::get: ASSUMED here; this postcondition is PROVED for the real body in unit
// rtr_registry (together with the registry protocol).
impl RtrPerAddrMetrics {
    #[verifier::external_body]
    fn get(&self, addr: IpAddr) -> (res: Arc<RtrMetricsData>)
        requires writer_mutex(&self.addrs) == &self.write,
        ensures has_entry(&self.addrs, addr, res),
    { unimplemented!() }
}

// ---- <[T]>::binary_search_by (std), ASSUMED, stated through the comparator's own contract.
// A comparator closure verified by Verus terminates and does not panic, so it has a result for
// every argument satisfying its `requires`; `result_of` names it (ASSUMED).
// Ok(i): the comparator answers Equal for element i. Err(i): if the comparator's answers are
// monotone along the slice (Less <= Equal <= Greater, i.e. the slice is sorted for it), i is the
// partition point: Less before i, Greater from i on.
pub open spec fn ord_rank(o: Ordering) -> int {
    match o { Ordering::Less => 0, Ordering::Equal => 1, Ordering::Greater => 2 }
}
pub uninterp spec fn result_of<T, F>(f: F, x: &T) -> Ordering;
pub broadcast axiom fn axiom_comparator_total<T, F: FnMut(&T) -> Ordering>(f: F, x: &T)
    ensures f.requires((x,)) ==> f.ensures((x,), #[trigger] result_of(f, x));
pub assume_specification<'a, T, F> [ <[T]>::binary_search_by ] (s: &'a [T], f: F) -> (r: Result<usize, usize>)
    where F: FnMut(&'a T) -> Ordering,
    ensures
        r matches Ok(i) ==> i < s@.len() && f.ensures((&s@[i as int],), Ordering::Equal),
        r matches Err(i) ==> i <= s@.len(),
        (forall|j: int, k: int| 0 <= j < k < s@.len() ==> ord_rank(#[trigger] result_of(f, &s@[j])) <= ord_rank(#[trigger] result_of(f, &s@[k])))
        ==> (r matches Err(i) ==>
                (forall|j: int| 0 <= j < i ==> result_of(f, &#[trigger] s@[j]) == Ordering::Less)
             && (forall|j: int| i <= j < s@.len() ==> result_of(f, &#[trigger] s@[j]) == Ordering::Greater)),
;

// Clone of a pair (IpAddr is Copy, Arc::clone yields the same Arc): the same pair. ASSUMED
// (Verus has no specification for the built-in tuple Clone).
pub broadcast axiom fn axiom_pair_clone(a: (IpAddr, Arc<RtrMetricsData>), b: (IpAddr, Arc<RtrMetricsData>))
    ensures #[trigger] cloned(a, b) ==> a == b;

// `Vec<T>::into()` for Arc<Vec<T>> (std `From<T> for Arc<T>`): moves the vector into a new Arc.
#[verifier::external_body]
pub fn vec_into_arc<T>(v: Vec<T>) -> (r: Arc<Vec<T>>) ensures r@ == v@ { unimplemented!() }

// ---- connection counting
#[verifier::external_body] pub struct TcpStream { _opaque: () }
#[verifier::external_body] pub struct SocketAddr { _opaque: () }
#[verifier::external_body] pub struct TlsAcceptor { _opaque: () }
#[verifier::external_body] pub struct MaybeTlsTcpStream { _opaque: () }
#[verifier::external_body] pub struct IoError { _opaque: () }
#[derive(Clone, Copy)]
#[verifier::external_body] pub struct Duration { _opaque: () }
impl SocketAddr {
    pub uninterp spec fn ip_spec(&self) -> IpAddr;
    #[verifier::external_body] pub fn ip(&self) -> (r: IpAddr) ensures r == self.ip_spec() { unimplemented!() }
}
impl MaybeTlsTcpStream {
    #[verifier::external_body] pub fn new(sock: TcpStream, tls: Option<&TlsAcceptor>) -> Self { unimplemented!() }
}
impl RtrStream {
    // socket options; may fail (the kernel rejects the keepalive time)
    #[verifier::external_body]
    fn set_keepalive(sock: &TcpStream, duration: Duration, Tracked(clk): Tracked<&mut Clock>) -> (r: Result<(), IoError>)
        ensures final(clk).updates == old(clk).updates,
    { unimplemented!() }
}
// Monotone ghost facts: the open-connection counter of this metrics record has been
// incremented / decremented by this call (AtomicUsize fetch_add / fetch_sub).
pub uninterp spec fn conn_incremented(m: &RtrMetricsData) -> bool;
pub uninterp spec fn conn_decremented(m: &RtrMetricsData) -> bool;
impl RtrMetricsData {
    #[verifier::external_body]
    pub fn inc_current_connections(&self) ensures conn_incremented(self) { unimplemented!() }
    #[verifier::external_body]
    pub fn dec_current_connections(&self) ensures conn_decremented(self) { unimplemented!() }
}

// ---- std functions without a vstd specification (ASSUMED; their std definitions). Declared so
// that a change of the code to one of these combinators is verified instead of rejected.
pub assume_specification<T: Ord + core::marker::Destruct> [std::cmp::max] (a: T, b: T) -> (r: T)
    ensures <T as vstd::std_specs::cmp::OrdSpec>::obeys_cmp_spec() ==> r == (if vstd::std_specs::cmp::OrdSpec::cmp_spec(&a, &b) == std::cmp::Ordering::Greater { a } else { b });
pub assume_specification<T: Ord + core::marker::Destruct> [std::cmp::min] (a: T, b: T) -> (r: T)
    ensures <T as vstd::std_specs::cmp::OrdSpec>::obeys_cmp_spec() ==> r == (if vstd::std_specs::cmp::OrdSpec::cmp_spec(&a, &b) == std::cmp::Ordering::Greater { b } else { a });
pub assume_specification<T> [bool::then_some] (b: bool, t: T) -> (r: Option<T>)
    ensures r == (if b { Some(t) } else { None::<T> });
pub assume_specification<T, U> [Option::<T>::and] (a: Option<T>, b: Option<U>) -> (r: Option<U>)
    ensures r == (if a is Some { b } else { None::<U> });
pub assume_specification<T> [Option::<T>::or] (a: Option<T>, b: Option<T>) -> (r: Option<T>)
    ensures r == (if a is Some { a } else { b });
pub assume_specification<T> [Option::<T>::xor] (a: Option<T>, b: Option<T>) -> (r: Option<T>)
    ensures r == (if a is Some && b is None { a } else if a is None && b is Some { b } else { None::<T> });
pub assume_specification<T, U> [Option::<T>::zip] (a: Option<T>, b: Option<U>) -> (r: Option<(T, U)>)
    ensures r == (if a is Some && b is Some { Some((a->Some_0, b->Some_0)) } else { None::<(T, U)> });
pub assume_specification<T> [Option::<T>::replace] (a: &mut Option<T>, v: T) -> (r: Option<T>)
    ensures r == *old(a), *final(a) == Some(v);
pub assume_specification<T, F: FnOnce(T) -> bool> [Option::<T>::is_some_and] (a: Option<T>, f: F) -> (r: bool)
    requires a is Some ==> f.requires((a->Some_0,)),
    ensures a is None ==> !r, a is Some ==> f.ensures((a->Some_0,), r);
pub assume_specification<T, U, F: FnOnce(T) -> U> [Option::<T>::map_or] (a: Option<T>, default: U, f: F) -> (r: U)
    requires a is Some ==> f.requires((a->Some_0,)),
    ensures a is None ==> r == default, a is Some ==> f.ensures((a->Some_0,), r);
pub assume_specification<T, P: FnOnce(&T) -> bool> [Option::<T>::filter] (a: Option<T>, p: P) -> (r: Option<T>)
    requires a is Some ==> p.requires((&a->Some_0,)),
    ensures a is None ==> r is None, r is Some ==> r == a,
            a is Some ==> (p.ensures((&a->Some_0,), true) ==> r == a) && (p.ensures((&a->Some_0,), false) ==> r is None),
        // the predicate returned SOME boolean for the element, and the result follows it
        a is Some ==> exists|__b: bool| p.ensures((&a->Some_0,), __b) && r == (if __b { a } else { None::<T> });
pub assume_specification<T, E, U, F: FnOnce(T) -> Result<U, E>> [Result::<T, E>::and_then] (a: Result<T, E>, f: F) -> (r: Result<U, E>)
    requires a is Ok ==> f.requires((a->Ok_0,)),
    ensures a is Err ==> r == Err::<U, E>(a->Err_0), a is Ok ==> f.ensures((a->Ok_0,), r);
pub assume_specification<T, E, U> [Result::<T, E>::and] (a: Result<T, E>, b: Result<U, E>) -> (r: Result<U, E>)
    ensures r == (if a is Ok { b } else { Err::<U, E>(a->Err_0) });
pub assume_specification<T, E, F> [Result::<T, E>::or] (a: Result<T, E>, b: Result<T, F>) -> (r: Result<T, F>)
    ensures r == (if a is Ok { Ok::<T, F>(a->Ok_0) } else { b });
pub assume_specification<T, E, F: FnOnce(T) -> bool> [Result::<T, E>::is_ok_and] (a: Result<T, E>, f: F) -> (r: bool)
    requires a is Ok ==> f.requires((a->Ok_0,)),
    ensures a is Err ==> !r, a is Ok ==> f.ensures((a->Ok_0,), r);
pub assume_specification<T, E> [Result::<T, E>::unwrap_or] (a: Result<T, E>, default: T) -> (r: T)
    ensures r == (if a is Ok { a->Ok_0 } else { default });
pub assume_specification<T, E, F: FnOnce(E) -> T> [Result::<T, E>::unwrap_or_else] (a: Result<T, E>, f: F) -> (r: T)
    requires a is Err ==> f.requires((a->Err_0,)),
    ensures a is Ok ==> r == a->Ok_0, a is Err ==> f.ensures((a->Err_0,), r);

// Ghost clock (rewrite R20) of the connection-counting functions: `updates` counts the calls of
// RtrClientMetrics::update made by the current call.
pub tracked struct Clock { pub ghost updates: nat }
