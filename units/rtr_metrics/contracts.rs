//@ fn RtrClientMetrics::update
//@ spec
    requires
        op.requires((&*self.global,)),
        self.client matches Some(c) ==> op.requires((&*c,)),
    ensures
        // the operation is applied to the global record and, if per-address metrics are on, to the address's record
        op.ensures((&*self.global,), ()),
        self.client matches Some(c) ==> op.ensures((&*c,), ()),
        final(clk).updates == old(clk).updates + 1,
//@ entry
        proof { clk.updates = clk.updates + 1; }
//@ fn RtrServerMetrics::get_client
//@ spec
    requires self.client matches Some(c) ==> writer_mutex(&c.addrs) == &c.write,
    ensures
        res.global == self.global,
        // C36: with per-client metrics enabled the connection is attached to the registry's entry for its address
        self.client matches Some(c) ==> (res.client matches Some(m) && has_entry(&c.addrs, addr, m)),
        self.client is None ==> res.client is None,
//@ closure map 1 optional
|client: &RtrPerAddrMetrics| -> (r: Arc<RtrMetricsData>)
    requires writer_mutex(&client.addrs) == &client.write
    ensures has_entry(&client.addrs, addr, r)
//@ fn RtrStream::new
//@ spec
    requires server_metrics.client matches Some(c) ==> writer_mutex(&c.addrs) == &c.write,
    ensures
        // C36: a stream that comes into existence has been counted, globally and under its address's entry
        res matches Ok(s) ==> s.metrics.global == server_metrics.global && conn_incremented(&*s.metrics.global)
            && (server_metrics.client matches Some(c) ==>
                    (s.metrics.client matches Some(m) && has_entry(&c.addrs, addr.ip_spec(), m) && conn_incremented(&*m))),
        // C36: a connection is counted exactly when a stream comes into existence: a failed setup (no
        // RtrStream, so no Drop) has made no metrics update, a successful one exactly one (the increment)
        res is Err ==> final(clk).updates == old(clk).updates,
        res is Ok ==> final(clk).updates == old(clk).updates + 1,
//@ closure update 1 optional
|metrics: &RtrMetricsData| ensures conn_incremented(metrics)
//@ fn RtrStream::drop
//@ spec
    ensures
        // C36: closing the stream uncounts it on the same records
        conn_decremented(&*old(self).metrics.global),
        old(self).metrics.client matches Some(m) ==> conn_decremented(&*m),
        // C36: exactly one update (the decrement)
        final(clk).updates == old(clk).updates + 1,
//@ closure update 1 optional
|metrics: &RtrMetricsData| ensures conn_decremented(metrics)
