//@ fn PayloadHistory::current
//@ spec
    ensures res == self.current,
//@ fn PayloadHistory::session
//@ spec
    ensures res == self.session,
//@ fn PayloadHistory::session_and_serial
//@ spec
    ensures res == (self.session, self.cur()),
//@ fn PayloadHistory::created
//@ spec
    ensures res == self.created,
//@ fn PayloadHistory::metrics
//@ spec
    ensures res == self.metrics,
//@ fn handle_delta
//@ spec
    ensures res.status_spec() == 200,
            res.body_spec() == (Body::Delta { session, from: from_serial, to: to_serial, delta }),
//@ fn handle_reset
//@ spec
    ensures res.status_spec() == 200,
            res.body_spec() == (Body::Snapshot { session, to: to_serial, snapshot }),
//@ fn handle_get_or_head
//@ spec
    ensures
        final(clk).waits == old(clk).waits,
        // C13: a change set is answered only to a client that presents this session and a serial of the
        // retained window; it is tagged from/to with the presented and the current serial and turns the
        // data set of the presented serial into that of the current one (for every ghost history c)
        (res is Ok && res->Ok_0.body_spec() is Delta) ==>
            exists|h: PayloadHistory| #[trigger] history.held(h) && ({
                let b = res->Ok_0.body_spec();
                &&& presented_spec(req.query_spec()) == Some(Some((b->Delta_session, b->Delta_from)))
                &&& b->Delta_session == h.session && b->Delta_to == h.cur()
                &&& wsub(h.cur().0, b->Delta_from.0) as int <= h.deltas@.len()
                &&& b->Delta_delta.serial_spec() == h.cur()
                &&& forall|c: spec_fn(u32) -> Content| #[trigger] h.spans_ok(c) ==>
                        b->Delta_delta.is_diff(c(b->Delta_from.0), c(h.cur().0))
            }),
        // C15: a full data set is answered with session, serial and data of ONE state
        (res is Ok && res->Ok_0.body_spec() is Snapshot) ==>
            exists|h: PayloadHistory| #[trigger] history.held(h) && ({
                let b = res->Ok_0.body_spec();
                b->Snapshot_session == h.session && b->Snapshot_to == h.cur()
                && h.current == Some(b->Snapshot_snapshot)
            }),
//@ fn need_wait
//@ spec
    ensures
        final(clk).waits == old(clk).waits, final(clk).now >= old(clk).now,
        // C17: waiting is requested exactly when the presented version equals the version served at
        // the step t of this call's (single) look at the history
        res matches Ok(w) ==> (presented_spec(req.query_spec()) matches Some(p) && match p {
            None => !w && final(clk).now == old(clk).now,
            Some(v) => final(clk).now == old(clk).now + 1 && w == (v == history.version_at(old(clk).now)),
        }),
        res is Err ==> presented_spec(req.query_spec()) is None,
//@ fn handle_notify_get_or_head
//@ closureopaque 1 json_session_serial(session, serial)
//@ spec
    ensures
        // C17: every wait this request performs is justified: at a step t NOT BEFORE the receiver was
        // subscribed, the presented version was (still) the served one -- so the notification of the
        // change that ends this version is sent after the subscription and cannot be missed
        forall|i: int| old(clk).waits.len() <= i < final(clk).waits.len() ==>
            exists|t: nat| (#[trigger] final(clk).waits[i]) <= t
                && presented_spec(req.query_spec()) == Some(Some(history.version_at(t))),
        // C17: at most one wait per request
        final(clk).waits.len() <= old(clk).waits.len() + 1,
//@ global
impl PayloadHistory {
    spec fn cur(&self) -> Serial {
        if self.deltas@.len() > 0 { self.deltas@[0].serial_spec() } else { Serial(0u32) }
    }
    spec fn chain(&self) -> bool {
        &&& self.deltas@.len() < 0x8000_0000
        &&& forall|i: int| 0 <= i < self.deltas@.len() ==>
                (#[trigger] self.deltas@[i]).serial_spec().0 == wadd(self.cur().0, -i)
    }
    spec fn spans_ok(&self, c: spec_fn(u32) -> Content) -> bool {
        forall|i: int| 0 <= i < self.deltas@.len() ==>
            (#[trigger] self.deltas@[i]).is_diff(c(wadd(self.cur().0, -i - 1)), c(wadd(self.cur().0, -i)))
    }
}
