// Environment of unit `notify` (C17; HTTP clauses of C13 and C15). Everything here is ASSUMED.

// ===== rpki::rtr::Serial: copied from units/history/env.rs
#[derive(Clone, Copy)]
pub struct Serial(pub u32);

pub open spec fn serial_cmp(a: u32, b: u32) -> Option<Ordering> {
    if a == b { Some(Ordering::Equal) }
    else if a < b {
        if b - a < 0x8000_0000 { Some(Ordering::Less) }
        else if b - a > 0x8000_0000 { Some(Ordering::Greater) }
        else { None }
    } else {
        if a - b < 0x8000_0000 { Some(Ordering::Greater) }
        else if a - b > 0x8000_0000 { Some(Ordering::Less) }
        else { None }
    }
}

pub open spec fn wadd(a: u32, b: int) -> u32 { ((a as int + b) % 0x1_0000_0000) as u32 }
pub open spec fn wsub(a: u32, b: u32) -> u32 { ((a as int - b as int) % 0x1_0000_0000) as u32 }

impl PartialEqSpecImpl for Serial {
    open spec fn obeys_eq_spec() -> bool { true }
    open spec fn eq_spec(&self, other: &Serial) -> bool { self.0 == other.0 }
}
impl PartialEq for Serial {
    #[verifier::external_body]
    fn eq(&self, other: &Self) -> bool { unimplemented!() }
}
impl PartialEqSpecImpl<u32> for Serial {
    open spec fn obeys_eq_spec() -> bool { true }
    open spec fn eq_spec(&self, other: &u32) -> bool { self.0 == *other }
}
impl PartialEq<u32> for Serial {
    #[verifier::external_body]
    fn eq(&self, other: &u32) -> bool { unimplemented!() }
}
impl PartialOrdSpecImpl for Serial {
    open spec fn obeys_partial_cmp_spec() -> bool { true }
    open spec fn partial_cmp_spec(&self, other: &Serial) -> Option<Ordering> { serial_cmp(self.0, other.0) }
}
impl PartialOrd for Serial {
    #[verifier::external_body]
    fn partial_cmp(&self, other: &Serial) -> Option<Ordering> { unimplemented!() }
}
impl Serial {
    #[verifier::external_body]
    pub fn add(self, other: u32) -> (r: Serial)
        requires other <= 0x7FFF_FFFF,
        ensures r.0 == wadd(self.0, other as int),
    { unimplemented!() }
}
impl vstd::std_specs::convert::FromSpecImpl<u32> for Serial {
    open spec fn obeys_from_spec() -> bool { true }
    open spec fn from_spec(v: u32) -> Serial { Serial(v) }
}
impl From<u32> for Serial {
    #[verifier::external_body]
    fn from(value: u32) -> Serial { unimplemented!() }
}


// ===== time: only carried around here
#[derive(Clone, Copy)] pub struct Duration { pub ns: Ghost<nat> }
#[derive(Clone, Copy)] pub struct SystemTime { pub t: Ghost<int> }
#[derive(Clone, Copy)] pub struct Utc { pub _z: Ghost<int> }
#[derive(Clone, Copy)] #[verifier::reject_recursive_types(T)]
pub struct DateTime<T> { pub t: Ghost<int>, pub _tz: Ghost<T> }
impl Utc { #[verifier::external_body] pub fn now() -> DateTime<Utc> { unimplemented!() } }

// ===== payload types
#[verifier::external_body] pub struct Content { _opaque: () }
#[verifier::external_body] pub struct PayloadSnapshot { _opaque: () }
#[verifier::external_body] pub struct PayloadDelta { _opaque: () }
#[verifier::external_body] pub struct Metrics { _opaque: () }
#[verifier::external_body] pub struct FilterPolicy { _opaque: () }
#[verifier::external_body] pub struct Timing { _opaque: () }
impl PayloadDelta {
    pub uninterp spec fn serial_spec(&self) -> Serial;
    pub uninterp spec fn is_diff(&self, a: Content, b: Content) -> bool;
    pub uninterp spec fn is_empty_spec(&self) -> bool;

    // accessors (delta.rs); is_empty/serial read the abstract state, the counts are not constrained
    #[verifier::external_body]
    pub fn is_empty(&self) -> (r: bool) ensures r == self.is_empty_spec() { unimplemented!() }
    #[verifier::external_body]
    pub fn serial(&self) -> (r: Serial) ensures r == self.serial_spec() { unimplemented!() }
    #[verifier::external_body] pub fn announce_len(&self) -> usize { unimplemented!() }
    #[verifier::external_body] pub fn withdraw_len(&self) -> usize { unimplemented!() }
    // C11/C12 (unit delta), as assumed in units/history/env.rs, over data-set contents
    #[verifier::external_body]
    pub fn empty(serial: Serial) -> (r: PayloadDelta)
        ensures r.serial_spec() == serial, r.is_empty_spec(), forall|x: Content| r.is_diff(x, x),
    { unimplemented!() }
    #[verifier::external_body]
    pub fn merge(&self, new: &PayloadDelta) -> (r: PayloadDelta)
        ensures r.serial_spec() == new.serial_spec(),
                forall|x: Content, y: Content, z: Content| self.is_diff(x, y) && new.is_diff(y, z) ==> r.is_diff(x, z),
    { unimplemented!() }
}

// proved in unit history (contracts copied as in units/history_locks/env.rs)
impl PayloadHistory {
    #[verifier::external_body]
    fn delta_since(&self, serial: Serial) -> (res: Option<Arc<PayloadDelta>>)
        requires self.chain(),
        ensures
            res is Some ==> wsub(self.cur().0, serial.0) as int <= self.deltas@.len(),
            (wsub(self.cur().0, serial.0) == 0 || (wsub(self.cur().0, serial.0) as int) < self.deltas@.len())
                ==> res is Some,
            res matches Some(d) ==> d.serial_spec() == self.cur(),
            forall|c: spec_fn(u32) -> Content| #[trigger] self.spans_ok(c) ==>
                (res matches Some(d) ==> d.is_diff(c(serial.0), c(self.cur().0))),
            res matches Some(d) ==> (serial == self.cur() ==> d.is_empty_spec()),
    { unimplemented!() }
    #[verifier::external_body]
    fn serial(&self) -> (res: Serial) ensures res == self.cur() { unimplemented!() }
    #[verifier::external_body]
    fn is_active(&self) -> (res: bool) ensures res == self.current.is_some() { unimplemented!() }
    #[verifier::external_body]
    fn rtr_session(&self) -> (res: u16) ensures res == self.session as u16 { unimplemented!() }
}

// ===== ghost clock (rewrite R20): one step per lock acquisition / subscribe / recv of this request;
// `waits` logs, for every recv() performed, the step at which its receiver was subscribed
pub tracked struct Clock { pub ghost now: nat, pub ghost waits: Seq<nat> }

// ===== the lock (readers only)
#[verifier::external_body] struct SharedHistory { _opaque: () }
impl SharedHistory {
    // ghost: h was the content seen by a read section of the current call
    pub uninterp spec fn held(&self, h: PayloadHistory) -> bool;
    // ghost: the version (session, serial) served at a step of the clock
    pub uninterp spec fn version_at(&self, t: nat) -> (u64, Serial);
    #[verifier::external_body]
    fn read(&self, Tracked(clk): Tracked<&mut Clock>) -> (g: &PayloadHistory)
        ensures
            self.held(*g), g.chain(),
            (g.session, g.cur()) == self.version_at(old(clk).now),
            final(clk).now == old(clk).now + 1, final(clk).waits == old(clk).waits,
    { unimplemented!() }
}

// ===== rpki::rtr::server::{NotifySender, NotifyReceiver} (tokio broadcast)
#[verifier::external_body] pub struct NotifySender { _opaque: () }
#[verifier::external_body] pub struct NotifyReceiver { _opaque: () }
impl NotifyReceiver {
    // the step at which this receiver was created: it sees the notifications sent after it
    pub uninterp spec fn since(&self) -> nat;
    // waits for the next notification sent after `since`
    #[verifier::external_body]
    pub fn recv(&mut self, Tracked(clk): Tracked<&mut Clock>)
        ensures
            final(self).since() == old(self).since(),
            final(clk).now == old(clk).now + 1,
            final(clk).waits == old(clk).waits.push(old(self).since()),
    { unimplemented!() }
}
impl NotifySender {
    #[verifier::external_body]
    pub fn subscribe(&self, Tracked(clk): Tracked<&mut Clock>) -> (r: NotifyReceiver)
        ensures r.since() == old(clk).now, final(clk).now == old(clk).now + 1, final(clk).waits == old(clk).waits,
    { unimplemented!() }
}

// ===== HTTP request / response (abstracted as in units/conditional/env.rs)
#[verifier::external_body] pub struct Request { _opaque: () }
#[verifier::external_body] pub struct Uri { _opaque: () }
impl Request {
    pub uninterp spec fn query_spec(&self) -> Option<Seq<char>>;
    #[verifier::external_body] pub fn uri(&self) -> (r: &Uri) ensures r.query_spec() == self.query_spec() { unimplemented!() }
    #[verifier::external_body] pub fn is_head(&self) -> bool { unimplemented!() }
    #[verifier::external_body] pub fn is_api(&self) -> bool { unimplemented!() }
    #[verifier::external_body] pub fn is_get_or_head(&self) -> bool { unimplemented!() }
}
impl Uri {
    pub uninterp spec fn query_spec(&self) -> Option<Seq<char>>;
    #[verifier::external_body] pub fn path(&self) -> &str { unimplemented!() }
    #[verifier::external_body]
    pub fn query(&self) -> (r: Option<&str>)
        ensures r is Some <==> self.query_spec() is Some, r matches Some(q) ==> self.query_spec() == Some(q@),
    { unimplemented!() }
}
// delta.rs version_from_query (form_urlencoded + FromStr: not verifiable here): the (session, serial)
// a query presents, or an error response
pub uninterp spec fn presented_spec(query: Option<Seq<char>>) -> Option<Option<(u64, Serial)>>;
#[verifier::external_body]
pub fn version_from_query(query: Option<&str>) -> (r: Result<Option<(u64, Serial)>, Response>)
    ensures
        r matches Ok(v) ==> presented_spec(match query { Some(q) => Some(q@), None => None }) == Some(v),
        r matches Err(resp) ==> resp.status_spec() == 400 && resp.body_spec() is Text
            && presented_spec(match query { Some(q) => Some(q@), None => None }) is None,
{ unimplemented!() }

pub struct ContentType { pub kind: u8 }
impl ContentType {
    pub const JSON: ContentType = ContentType { kind: 1 };
    pub const TEXT: ContentType = ContentType { kind: 2 };
    pub const CSV: ContentType = ContentType { kind: 3 };
}
pub enum Body {
    Empty, Text,
    Delta { session: u64, from: Serial, to: Serial, delta: Arc<PayloadDelta> },
    Snapshot { session: u64, to: Serial, snapshot: Arc<PayloadSnapshot> },
}
#[verifier::external_body] pub struct Response { _opaque: () }
#[verifier::external_body] pub struct ResponseBuilder { _opaque: () }
#[verifier::external_body] pub struct DeltaStream { _opaque: () }
#[verifier::external_body] pub struct SnapshotStream { _opaque: () }
#[verifier::external_body] #[verifier::reject_recursive_types(T)] pub struct Streamed<T> { _t: T }
pub trait BodySource: Sized { spec fn body(self) -> Body; }
impl DeltaStream {
    pub uninterp spec fn body(self) -> Body;
    #[verifier::external_body]
    pub fn new(session: u64, from_serial: Serial, to_serial: Serial, delta: Arc<PayloadDelta>, created: DateTime<Utc>) -> (r: DeltaStream)
        ensures r.body() == (Body::Delta { session, from: from_serial, to: to_serial, delta }) { unimplemented!() }
}
impl SnapshotStream {
    pub uninterp spec fn body(self) -> Body;
    #[verifier::external_body]
    pub fn new(session: u64, to_serial: Serial, snapshot: Arc<PayloadSnapshot>, created: DateTime<Utc>) -> (r: SnapshotStream)
        ensures r.body() == (Body::Snapshot { session, to: to_serial, snapshot }) { unimplemented!() }
}
impl<T> Streamed<T> { pub uninterp spec fn inner(self) -> T; }
impl BodySource for Streamed<DeltaStream> { open spec fn body(self) -> Body { self.inner().body() } }
impl BodySource for Streamed<SnapshotStream> { open spec fn body(self) -> Body { self.inner().body() } }
#[verifier::external_body]
pub fn stream_iter<T>(s: T) -> (r: Streamed<T>) ensures r.inner() == s { unimplemented!() }

impl Response {
    pub uninterp spec fn status_spec(&self) -> u16;
    pub uninterp spec fn body_spec(&self) -> Body;
    #[verifier::external_body]
    pub fn initial_validation(api: bool) -> (r: Response) ensures r.status_spec() == 503, r.body_spec() is Text { unimplemented!() }
    #[verifier::external_body]
    pub fn bad_request<M>(api: bool, message: M) -> (r: Response) ensures r.status_spec() == 400, r.body_spec() is Text { unimplemented!() }
    #[verifier::external_body]
    pub fn not_found(api: bool) -> (r: Response) ensures r.status_spec() == 404, r.body_spec() is Text { unimplemented!() }
}
impl ResponseBuilder {
    #[verifier::external_body] pub fn ok() -> ResponseBuilder { unimplemented!() }
    #[verifier::external_body] pub fn content_type(self, content_type: ContentType) -> ResponseBuilder { unimplemented!() }
    #[verifier::external_body]
    pub fn empty(self) -> (r: Response) ensures r.status_spec() == 200, r.body_spec() is Empty { unimplemented!() }
    #[verifier::external_body]
    pub fn body(self, body: String) -> (r: Response) ensures r.status_spec() == 200, r.body_spec() is Text { unimplemented!() }
    #[verifier::external_body]
    pub fn stream<S: BodySource>(self, body: S) -> (r: Response) ensures r.status_spec() == 200, r.body_spec() == body.body() { unimplemented!() }
}
// JsonBuilder::build(|json| { json.member_raw("session", session); json.member_raw("serial", serial); })
// (R17: the closure takes `&mut JsonBuilder`; rendered text is never claimed)
#[verifier::external_body] pub struct JsonBuilder { _opaque: () }
#[verifier::external_body] pub struct JsonClosure { _opaque: () }
#[verifier::external_body] pub fn json_session_serial(session: u64, serial: Serial) -> JsonClosure { unimplemented!() }
impl JsonBuilder { #[verifier::external_body] pub fn build(op: JsonClosure) -> String { unimplemented!() } }

// Arc::clone returns an equal Arc
pub mod clone_axiom {
    use vstd::prelude::*;
    use std::sync::Arc;
    #[verifier::external_body]
    pub broadcast proof fn axiom_arc_cloned<T>(a: Arc<T>, b: Arc<T>)
        ensures #[trigger] cloned(a, b) ==> a == b
    {}
}
broadcast use clone_axiom::axiom_arc_cloned;

// std combinators without a vstd specification (assumed; same text as in units/cacert/env.rs)
pub assume_specification<T, F: FnOnce(T) -> bool + core::marker::Destruct> [std::option::Option::<T>::is_some_and] (o: Option<T>, f: F) -> (r: bool)
    requires o matches Some(x) ==> f.requires((x,)),
    ensures match o { Some(x) => f.ensures((x,), r), None => !r };
pub assume_specification<T, F: FnOnce(T) -> bool + core::marker::Destruct> [std::option::Option::<T>::is_none_or] (o: Option<T>, f: F) -> (r: bool)
    requires o matches Some(x) ==> f.requires((x,)),
    ensures match o { Some(x) => f.ensures((x,), r), None => r };
