//@ fn CaCert::new
//@ spec
    ensures
        res is Ok <==> cert.ca_repository_spec() is Some && cert.rpki_manifest_spec() is Some,
        res matches Ok(c) ==> c.cert == cert && c.uri == uri && c.parent == parent
            && c.chain_len == chain_len && c.tal == tal,
//@ fn CaCert::root
//@ spec
    ensures
        res is Ok <==> cert.ca_repository_spec() is Some && cert.rpki_manifest_spec() is Some,
        res matches Ok(c) ==> c.cert == cert && c.uri == uri && c.parent is None && c.tal == tal,
//@ fn Run::load_ta
//@ spec
    ensures
        // C10: the result is the download if it decodes, otherwise the stored copy
        res matches Ok(o) ==> o == ta_loaded(self, uri),
//@ closure map 1 optional
|bytes: Option<Bytes>| -> (r: Option<Cert>) ensures r == (match bytes { Some(b) => cert_decode(b), None => None })
//@ closure and_then 1 optional
|bytes: Bytes| -> (r: Option<Cert>) ensures r == cert_decode(bytes)
//@ fn Run::process_tal_task
//@ spec
    requires
        // established by Run::process (engine.rs: `for (index, tal) in self.validation.tals.iter().enumerate()`)
        (task.index as int) < self.validation.tals@.len(),
        *task.tal == self.validation.tals@[task.index as int],
    ensures
        // C10: a TAL none of whose URIs yields a usable trust anchor contributes
        // nothing: no sink is reached (sink preconditions) and the run is told so
        (forall|i: int| 0 <= i < task.tal.uris_spec().len() ==>
            !ta_usable(self, task.tal, &#[trigger] task.tal.uris_spec()[i]))
            ==> (res is Ok ==> !self.initial),
        // C33: a TAL task that ends in an error has marked the run as failed. Run::process stops the worker
        // on Err and fails the run only when had_err is set: an Err exit that does not set it turns a run in
        // which a fatal error was logged into a "successful" one whose (partial) result is then served
        res is Err ==> final(clk).failed,
        old(clk).failed ==> final(clk).failed,
//@ afterinit 1
        let ghost all = iter_1.remaining();
        let ghost mut k: int = 0;
//@ loopentry 1
        proof { k = k + 1; }
//@ loop 1
            invariant_except_break
                // C10: the URI under consideration is one of this TAL's URIs
                0 <= k <= all.len(), iter_1.remaining() == all.skip(k),
                // C10: no URI seen so far yields a usable trust anchor
                forall|i: int| 0 <= i < k ==> !ta_usable(self, task.tal, &#[trigger] task.tal.uris_spec()[i]),
            invariant
                all == task.tal.uri_refs(),
                iter_1.obeys_prophetic_iter_laws(), iter_1.decrease() is Some,
                (task.index as int) < self.validation.tals@.len(),
                *task.tal == self.validation.tals@[task.index as int],
                // C33: the failure flag is never cleared
                old(clk).failed ==> clk.failed,
            decreases iter_1.decrease()->Some_0,
//@ global
// C10: "bound to the TAL": a parentless CA certificate whose resource
// certificate came out of validate_ta and whose public key equals the TAL's.
spec fn ta_bound(cert: &CaCert, tal: &Tal) -> bool {
    &&& cert.parent is None
    &&& valid_ta(cert.cert)
    &&& cert.cert.cert_spec().spki_spec() == tal.key_spec()
}

// C10: a URI yields a usable trust anchor: something is loaded for it, its key
// equals the TAL's, it validates as a trust anchor (and names its repository).
spec fn ta_usable<P>(run: &Run<P>, tal: &Tal, uri: &TalUri) -> bool {
    ta_loaded(run, uri) matches Some(c)
    && c.spki_spec() == tal.key_spec()
    && (c.validate_ta_spec(run.validation.strict) matches Some(rc)
        && rc.ca_repository_spec() is Some && rc.rpki_manifest_spec() is Some)
}

// C10: provenance: the certificate is what load_ta yields for one of the URIs
// of the TAL it is accounted to.
spec fn ta_from<P>(run: &Run<P>, cert: &CaCert) -> bool {
    &&& run.validation.tals@[cert.tal as int].uris_spec().contains(cert.uri)
    &&& ta_loaded(run, &cert.uri) == Some(cert.cert.cert_spec())
}

spec fn ta_loaded<P>(run: &Run<P>, uri: &TalUri) -> Option<Cert> {
    let dl = match run.collector {
        Some(c) => match ta_download(&c, uri) {
            Some(bytes) => cert_decode(bytes),
            None => None,
        },
        None => None,
    };
    if dl is Some { dl } else {
        match ta_stored(&run.store, uri) {
            Ok(Some(bytes)) => cert_decode(bytes),
            _ => None,
        }
    }
}
