// Environment of unit `engine_ta` (C10, TA clause of C01): opaque rpki /
// collector / store types and ASSUMED contracts of everything
// Run::process_tal_task, Run::load_ta, CaCert::root/new call.

// ---------------------------------------------------------------- opaque types
#[verifier::external_body] pub struct RsyncUri { _opaque: () }
#[verifier::external_body] pub struct HttpsUri { _opaque: () }
#[verifier::external_body] pub struct Bytes { _opaque: () }
#[verifier::external_body] pub struct PublicKey { _opaque: () }
#[verifier::external_body] pub struct TalInfo { _opaque: () }
#[verifier::external_body] pub struct Tal { _opaque: () }
#[verifier::external_body] pub struct Cert { _opaque: () }
#[verifier::external_body] pub struct ResourceCert { _opaque: () }
#[verifier::external_body] pub struct ValidationError { _opaque: () }
#[verifier::external_body] pub struct DecodeError { _opaque: () }
#[verifier::external_body] pub struct RunFailed { _opaque: () }
#[verifier::external_body] pub struct PathBuf { _opaque: () }
#[verifier::external_body] pub struct Collector { _opaque: () }
#[verifier::external_body] pub struct Store { _opaque: () }
#[verifier::external_body] pub struct Metrics { _opaque: () }
#[verifier::external_body] pub struct RunMetrics { _opaque: () }
#[verifier::external_body] pub struct AtomicBool { _opaque: () }
#[verifier::external_body] pub struct CollectorRun<'a> { _p: &'a Collector }
#[verifier::external_body] pub struct StoreRun<'a> { _p: &'a Store }
#[verifier::external_body] #[verifier::reject_recursive_types(T)] pub struct SegQueue<T> { _t: T }

// rpki::repository::tal::TalUri (lives in the rpki crate; matched/cloned here).
pub enum TalUri {
    Rsync(RsyncUri),
    Https(HttpsUri),
}
impl Clone for TalUri {
    #[verifier::external_body]
    fn clone(&self) -> (r: TalUri) ensures r == *self { unimplemented!() }
}
impl Clone for RsyncUri {
    #[verifier::external_body]
    fn clone(&self) -> (r: RsyncUri) ensures r == *self { unimplemented!() }
}
impl Clone for Bytes {
    #[verifier::external_body]
    fn clone(&self) -> (r: Bytes) ensures r == *self { unimplemented!() }
}

// Public keys compare structurally (rpki: derived PartialEq on the key bits).
impl PartialEqSpecImpl for PublicKey {
    open spec fn obeys_eq_spec() -> bool { true }
    open spec fn eq_spec(&self, other: &PublicKey) -> bool { *self == *other }
}
impl PartialEq for PublicKey {
    #[verifier::external_body]
    fn eq(&self, other: &Self) -> bool { unimplemented!() }
}

// ---------------------------------------------------------------- TAL
impl Tal {
    pub uninterp spec fn uris_spec(&self) -> Seq<TalUri>;
    pub uninterp spec fn key_spec(&self) -> PublicKey;
    pub uninterp spec fn info_spec(&self) -> Arc<TalInfo>;
    pub open spec fn uri_refs(&self) -> Seq<&TalUri> { self.uris_spec().map_values(|u: TalUri| &u) }

    #[verifier::external_body]
    pub fn uris(&self) -> (r: std::slice::Iter<'_, TalUri>)
        ensures r.remaining() == self.uri_refs(),
                r.obeys_prophetic_iter_laws(), r.decrease() is Some,
    { unimplemented!() }

    #[verifier::external_body]
    pub fn key_info(&self) -> (r: &PublicKey)
        ensures *r == self.key_spec(),
    { unimplemented!() }

    #[verifier::external_body]
    pub fn info(&self) -> (r: &Arc<TalInfo>)
        ensures *r == self.info_spec(),
    { unimplemented!() }
}

// ---------------------------------------------------------------- certificates
// Ghost typestate (C01/C10). `valid_ta(rc)` is produced ONLY by the
// assumed contract of Cert::validate_ta returning Ok: it says what an Ok
// means (self-signed trust anchor within validity, RFC 6487 profile), not
// that rpki computes it correctly.
pub uninterp spec fn valid_ta(rc: ResourceCert) -> bool;

// The outcome of decoding a byte string as a certificate.
pub uninterp spec fn cert_decode(bytes: Bytes) -> Option<Cert>;

impl Cert {
    pub uninterp spec fn spki_spec(&self) -> PublicKey;
    pub uninterp spec fn validate_ta_spec(&self, strict: bool) -> Option<ResourceCert>;

    #[verifier::external_body]
    pub fn decode(source: Bytes) -> (r: Result<Cert, DecodeError>)
        ensures r.ok() == cert_decode(source),
    { unimplemented!() }

    #[verifier::external_body]
    pub fn subject_public_key_info(&self) -> (r: &PublicKey)
        ensures *r == self.spki_spec(),
    { unimplemented!() }

    #[verifier::external_body]
    pub fn validate_ta(self, info: Arc<TalInfo>, strict: bool) -> (r: Result<ResourceCert, ValidationError>)
        ensures
            r.ok() == self.validate_ta_spec(strict),
            r matches Ok(rc) ==> valid_ta(rc) && rc.cert_spec() == self,
    { unimplemented!() }
}

impl ResourceCert {
    // the certificate this resource certificate was made from
    pub uninterp spec fn cert_spec(&self) -> Cert;
    pub uninterp spec fn ca_repository_spec(&self) -> Option<&RsyncUri>;
    pub uninterp spec fn rpki_manifest_spec(&self) -> Option<&RsyncUri>;

    #[verifier::external_body]
    pub fn ca_repository(&self) -> (r: Option<&RsyncUri>)
        ensures r == self.ca_repository_spec(),
    { unimplemented!() }

    #[verifier::external_body]
    pub fn rpki_manifest(&self) -> (r: Option<&RsyncUri>)
        ensures r == self.rpki_manifest_spec(),
    { unimplemented!() }
}

// ---------------------------------------------------------------- collector / store
// What the collector's download of `uri` yields in this run / what the store
// holds for `uri` (see paper step in unit.json).
pub uninterp spec fn ta_download(c: &CollectorRun, uri: &TalUri) -> Option<Bytes>;
pub uninterp spec fn ta_stored(s: &StoreRun, uri: &TalUri) -> Result<Option<Bytes>, Failed>;

impl<'a> CollectorRun<'a> {
    #[verifier::external_body]
    pub fn load_ta(&self, uri: &TalUri) -> (r: Option<Bytes>)
        ensures r == ta_download(self, uri),
    { unimplemented!() }
}

impl<'a> StoreRun<'a> {
    #[verifier::external_body]
    pub fn load_ta(&self, uri: &TalUri) -> (r: Result<Option<Bytes>, Failed>)
        ensures r == ta_stored(self, uri),
    { unimplemented!() }

    // C10 sink: the stored copy is replaced only by bytes that decode.
    #[verifier::external_body]
    pub fn update_ta(&self, uri: &TalUri, content: &Bytes) -> (r: Result<(), Failed>)
        requires cert_decode(*content) is Some,
    { unimplemented!() }
}

impl RunFailed {
    #[verifier::external_body]
    pub fn retry() -> (r: RunFailed) { unimplemented!() }
}

// ---------------------------------------------------------------- processor traits
// crate::engine::ProcessRun / ProcessPubPoint, reduced to what this unit
// calls. C10/C01 sink: a trust anchor is handed to the processor only when it
// is bound to the TAL (see `ta_bound` in contracts.rs).
trait ProcessPubPoint: Sized {
}

trait ProcessRun {
    type PubPoint: ProcessPubPoint;

    fn process_ta(&self, tal: &Tal, uri: &TalUri, cert: &CaCert, tal_index: usize)
        -> (r: Result<Option<Self::PubPoint>, Failed>)
        requires ta_bound(cert, tal), cert.uri == *uri, cert.tal == tal_index;
}

// Repository functions of the same impl block that are not extracted here.
impl<'a, P: ProcessRun> Run<'a, P> {
    // C10/C01 sink: a CA task for a parentless certificate is started only for
    // a certificate bound to a configured TAL.
    #[verifier::external_body]
    fn process_ca_task(
        &self, task: CaTask<P::PubPoint>, tasks: &SegQueue<Task<P::PubPoint>>, metrics: &mut RunMetrics,
        Tracked(clk): Tracked<&mut Clock>,
    ) -> (r: Result<(), Failed>)
        requires task.cert.parent is None ==>
            (task.cert.tal as int) < self.validation.tals@.len()
            && ta_bound(&*task.cert, &self.validation.tals@[task.cert.tal as int])
            && ta_from(self, &*task.cert),
        ensures
            // C33 (ASSUMED, from its body in src/engine.rs): every Err exit of process_ca_task comes after
            // run_failed (the map_err closure) or after had_err was seen set; the flag is never cleared
            r is Err ==> final(clk).failed,
            old(clk).failed ==> final(clk).failed,
    { unimplemented!() }

    // C33: marks the run as failed (had_err.store(true)); Run::process fails the run iff this flag is set
    #[verifier::external_body]
    fn run_failed(&self, err: RunFailed, Tracked(clk): Tracked<&mut Clock>)
        ensures final(clk).failed,
    { unimplemented!() }
}

// ===== ghost view of Run::had_err (rewrite R20 threads it through run_failed / process_ca_task as an erased
// argument; the AtomicBool itself is interior-mutable state behind `&self`, which a Verus contract cannot name)
pub tracked struct Clock { pub ghost failed: bool }

// ---------------------------------------------------------------- std functions without a vstd specification (assumed: their std definitions)
pub assume_specification<T: core::marker::Destruct> [Option::<T>::or] (a: Option<T>, b: Option<T>) -> (r: Option<T>)
    ensures r == (if a is Some { a } else { b });
pub assume_specification<T: core::marker::Destruct, U: core::marker::Destruct> [Option::<T>::and] (a: Option<T>, b: Option<U>) -> (r: Option<U>)
    ensures r == (if a is Some { b } else { None::<U> });
pub assume_specification<T: core::marker::Destruct> [Option::<T>::xor] (a: Option<T>, b: Option<T>) -> (r: Option<T>)
    ensures r == (if a is Some && b is None { a } else if a is None && b is Some { b } else { None::<T> });
pub assume_specification<T: core::marker::Destruct, P: FnOnce(&T) -> bool + core::marker::Destruct> [Option::<T>::filter] (a: Option<T>, p: P) -> (r: Option<T>)
    requires a matches Some(v) ==> p.requires((&v,)),
    ensures
        a is None ==> r is None,
        a matches Some(v) ==> (p.ensures((&v,), true) ==> r == a) && (p.ensures((&v,), false) ==> r is None) && (r is None || r == a),
        // the predicate returned SOME boolean for the element, and the result follows it
        a is Some ==> exists|__b: bool| p.ensures((&a->Some_0,), __b) && r == (if __b { a } else { None::<T> });
pub assume_specification<T, U: core::marker::Destruct, F: FnOnce(T) -> U + core::marker::Destruct> [Option::<T>::map_or] (a: Option<T>, d: U, f: F) -> (r: U)
    requires a matches Some(v) ==> f.requires((v,)),
    ensures a is None ==> r == d, a matches Some(v) ==> f.ensures((v,), r);
pub assume_specification<T, E, U, F: FnOnce(T) -> Result<U, E> + core::marker::Destruct> [Result::<T, E>::and_then] (a: Result<T, E>, f: F) -> (r: Result<U, E>)
    requires a matches Ok(v) ==> f.requires((v,)),
    ensures a matches Err(e) ==> r == Err::<U, E>(e), a matches Ok(v) ==> f.ensures((v,), r);
pub assume_specification<T: core::marker::Destruct, E: core::marker::Destruct> [Result::<T, E>::unwrap_or] (a: Result<T, E>, d: T) -> (r: T)
    ensures r == (match a { Ok(v) => v, Err(_) => d });
pub assume_specification<T, E, F: FnOnce(E) -> T + core::marker::Destruct> [Result::<T, E>::unwrap_or_else] (a: Result<T, E>, f: F) -> (r: T)
    requires a matches Err(e) ==> f.requires((e,)),
    ensures a matches Ok(v) ==> r == v, a matches Err(e) ==> f.ensures((e,), r);
pub assume_specification<T: core::marker::Destruct, E: core::marker::Destruct, F: FnOnce(T) -> bool + core::marker::Destruct> [Result::<T, E>::is_ok_and] (a: Result<T, E>, f: F) -> (r: bool)
    requires a matches Ok(v) ==> f.requires((v,)),
    ensures a is Err ==> !r, a matches Ok(v) ==> f.ensures((v,), r);
pub assume_specification<T: Ord + core::marker::Destruct> [std::cmp::max] (a: T, b: T) -> (r: T)
    ensures T::obeys_cmp_spec() ==> r == (if a.cmp_spec(&b) == Ordering::Greater { a } else { b });

pub assume_specification<T: Ord + core::marker::Destruct> [std::cmp::min] (a: T, b: T) -> (r: T)
    ensures T::obeys_cmp_spec() ==> r == (if b.cmp_spec(&a) == Ordering::Less { b } else { a });

// ---------------------------------------------------------------- further accessors used in engine.rs
#[verifier::external_body] pub struct Validity { _opaque: () }
#[verifier::external_body] pub struct KeyIdentifier { _opaque: () }
impl TalInfo {
    #[verifier::external_body]
    pub fn name(&self) -> (r: &str) { unimplemented!() }
}
impl Cert {
    #[verifier::external_body]
    pub fn validity(&self) -> (r: Validity) { unimplemented!() }
    #[verifier::external_body]
    pub fn subject_key_identifier(&self) -> (r: KeyIdentifier) { unimplemented!() }
    #[verifier::external_body]
    pub fn ca_repository(&self) -> (r: Option<&RsyncUri>) { unimplemented!() }
    #[verifier::external_body]
    pub fn rpki_manifest(&self) -> (r: Option<&RsyncUri>) { unimplemented!() }
    // validate_ca under an issuer: NOT a trust anchor validation (produces no valid_ta)
    #[verifier::external_body]
    pub fn validate_ca(self, issuer: &ResourceCert, strict: bool) -> (r: Result<ResourceCert, ValidationError>)
        ensures r matches Ok(rc) ==> rc.cert_spec() == self,
    { unimplemented!() }
}
impl ResourceCert {
    #[verifier::external_body]
    pub fn validity(&self) -> (r: Validity) { unimplemented!() }
    #[verifier::external_body]
    pub fn subject_public_key_info(&self) -> (r: &PublicKey) ensures *r == self.cert_spec().spki_spec() { unimplemented!() }
    #[verifier::external_body]
    pub fn as_cert(&self) -> (r: &Cert) ensures *r == self.cert_spec() { unimplemented!() }
}
impl Bytes {
    #[verifier::external_body]
    pub fn len(&self) -> (r: usize) { unimplemented!() }
    #[verifier::external_body]
    pub fn is_empty(&self) -> (r: bool) { unimplemented!() }
}
impl RunFailed {
    #[verifier::external_body]
    pub fn fatal() -> (r: RunFailed) { unimplemented!() }
}
impl<T> SegQueue<T> {
    #[verifier::external_body]
    pub fn push(&self, value: T) { unimplemented!() }
}

// ================================================================ rest of the public API of the env types
// (declared so that a refactoring that reaches for a sibling accessor still type-checks and is
// verified; unless a contract is given nothing is known about the result)
#[verifier::external_body] pub struct Time { _opaque: () }
#[verifier::external_body] pub struct Serial { _opaque: () }
#[verifier::external_body] pub struct AsResources { _opaque: () }
#[verifier::external_body] pub struct IpResources { _opaque: () }
#[verifier::external_body] pub struct IpBlocks { _opaque: () }
#[verifier::external_body] pub struct AsBlocks { _opaque: () }
#[verifier::external_body] pub struct VerificationError { _opaque: () }
#[verifier::external_body] pub struct InspectionError { _opaque: () }
#[verifier::external_body] pub struct X509Name { _opaque: () }
pub enum KeyUsage { Ca, Ee }
impl PartialEqSpecImpl for KeyUsage {
    open spec fn obeys_eq_spec() -> bool { true }
    open spec fn eq_spec(&self, other: &KeyUsage) -> bool { *self == *other }
}
impl PartialEq for KeyUsage {
    #[verifier::external_body]
    fn eq(&self, other: &Self) -> bool { unimplemented!() }
}
impl Cert {
    #[verifier::external_body]
    pub fn serial_number(&self) -> (r: Serial)
    { unimplemented!() }
}
impl Cert {
    #[verifier::external_body]
    pub fn issuer(&self) -> (r: &X509Name)
    { unimplemented!() }
}
impl Cert {
    #[verifier::external_body]
    pub fn subject(&self) -> (r: &X509Name)
    { unimplemented!() }
}
impl Cert {
    #[verifier::external_body]
    pub fn authority_key_identifier(&self) -> (r: Option<KeyIdentifier>)
    { unimplemented!() }
}
impl Cert {
    #[verifier::external_body]
    pub fn basic_ca(&self) -> (r: Option<bool>)
    { unimplemented!() }
}
impl Cert {
    #[verifier::external_body]
    pub fn key_usage(&self) -> (r: KeyUsage)
    { unimplemented!() }
}
impl Cert {
    #[verifier::external_body]
    pub fn crl_uri(&self) -> (r: Option<&RsyncUri>)
    { unimplemented!() }
}
impl Cert {
    #[verifier::external_body]
    pub fn ca_issuer(&self) -> (r: Option<&RsyncUri>)
    { unimplemented!() }
}
impl Cert {
    #[verifier::external_body]
    pub fn signed_object(&self) -> (r: Option<&RsyncUri>)
    { unimplemented!() }
}
impl Cert {
    #[verifier::external_body]
    pub fn rpki_notify(&self) -> (r: Option<&HttpsUri>)
    { unimplemented!() }
}
impl Cert {
    #[verifier::external_body]
    pub fn has_ip_resources(&self) -> (r: bool)
    { unimplemented!() }
}
impl Cert {
    #[verifier::external_body]
    pub fn as_resources(&self) -> (r: &AsResources)
    { unimplemented!() }
}
impl Cert {
    #[verifier::external_body]
    pub fn v4_resources(&self) -> (r: &IpResources)
    { unimplemented!() }
}
impl Cert {
    #[verifier::external_body]
    pub fn v6_resources(&self) -> (r: &IpResources)
    { unimplemented!() }
}
impl Cert {
    #[verifier::external_body]
    pub fn validate_ta_at(self, info: Arc<TalInfo>, strict: bool, now: Time) -> (r: Result<ResourceCert, ValidationError>)
    { unimplemented!() }
}
impl Cert {
    #[verifier::external_body]
    pub fn validate_ca_at(self, issuer: &ResourceCert, strict: bool, now: Time) -> (r: Result<ResourceCert, ValidationError>)
    { unimplemented!() }
}
impl Cert {
    #[verifier::external_body]
    pub fn validate_ee(self, issuer: &ResourceCert, strict: bool) -> (r: Result<ResourceCert, ValidationError>)
    { unimplemented!() }
}
impl Cert {
    #[verifier::external_body]
    pub fn validate_ee_at(self, issuer: &ResourceCert, strict: bool, now: Time) -> (r: Result<ResourceCert, ValidationError>)
    { unimplemented!() }
}
impl Cert {
    #[verifier::external_body]
    pub fn validate_router(&self, issuer: &ResourceCert, strict: bool) -> (r: Result<(), ValidationError>)
    { unimplemented!() }
}
impl Cert {
    #[verifier::external_body]
    pub fn validate_router_at(&self, issuer: &ResourceCert, strict: bool, now: Time) -> (r: Result<(), ValidationError>)
    { unimplemented!() }
}
impl Cert {
    #[verifier::external_body]
    pub fn inspect_ta(&self, strict: bool) -> (r: Result<(), InspectionError>)
    { unimplemented!() }
}
impl Cert {
    #[verifier::external_body]
    pub fn inspect_ca(&self, strict: bool) -> (r: Result<(), InspectionError>)
    { unimplemented!() }
}
impl Cert {
    #[verifier::external_body]
    pub fn inspect_ee(&self, strict: bool) -> (r: Result<(), InspectionError>)
    { unimplemented!() }
}
impl Cert {
    #[verifier::external_body]
    pub fn inspect_router(&self, strict: bool) -> (r: Result<(), InspectionError>)
    { unimplemented!() }
}
impl Cert {
    #[verifier::external_body]
    pub fn verify_ta(self, info: Arc<TalInfo>, strict: bool) -> (r: Result<ResourceCert, VerificationError>)
    { unimplemented!() }
}
impl Cert {
    #[verifier::external_body]
    pub fn verify_ca(self, issuer: &ResourceCert, strict: bool) -> (r: Result<ResourceCert, VerificationError>)
    { unimplemented!() }
}
impl Cert {
    #[verifier::external_body]
    pub fn verify_ee(self, issuer: &ResourceCert, strict: bool) -> (r: Result<ResourceCert, VerificationError>)
    { unimplemented!() }
}
impl Cert {
    #[verifier::external_body]
    pub fn verify_router(&self, issuer: &ResourceCert, strict: bool) -> (r: Result<(), VerificationError>)
    { unimplemented!() }
}
impl ResourceCert {
    #[verifier::external_body]
    pub fn v4_resources(&self) -> (r: &IpBlocks)
    { unimplemented!() }
}
impl ResourceCert {
    #[verifier::external_body]
    pub fn v6_resources(&self) -> (r: &IpBlocks)
    { unimplemented!() }
}
impl ResourceCert {
    #[verifier::external_body]
    pub fn as_resources(&self) -> (r: &AsBlocks)
    { unimplemented!() }
}
impl ResourceCert {
    #[verifier::external_body]
    pub fn tal(&self) -> (r: &Arc<TalInfo>)
    { unimplemented!() }
}
impl ResourceCert {
    #[verifier::external_body]
    pub fn into_tal(self) -> (r: Arc<TalInfo>)
    { unimplemented!() }
}
// rpki: `impl Deref for ResourceCert { type Target = Cert }`
impl std::ops::Deref for ResourceCert {
    type Target = Cert;
    #[verifier::external_body]
    fn deref(&self) -> (r: &Cert) ensures *r == self.cert_spec() { unimplemented!() }
}
impl Tal {
    #[verifier::external_body]
    pub fn prefer_https(&mut self)
    { unimplemented!() }
}
impl TalInfo {
    #[verifier::external_body]
    pub fn from_name(name: String) -> (r: TalInfo)
    { unimplemented!() }
}
impl TalInfo {
    #[verifier::external_body]
    pub fn into_arc(self) -> (r: Arc<TalInfo>)
    { unimplemented!() }
}
impl TalUri {
    #[verifier::external_body]
    pub fn is_rsync(&self) -> (r: bool)
        ensures r == (self is Rsync),
    { unimplemented!() }
}
impl TalUri {
    #[verifier::external_body]
    pub fn is_https(&self) -> (r: bool)
        ensures r == (self is Https),
    { unimplemented!() }
}
impl TalUri {
    #[verifier::external_body]
    pub fn as_str(&self) -> (r: &str)
    { unimplemented!() }
}
#[verifier::external_body] pub struct Crl { _opaque: () }
#[verifier::external_body] pub struct Manifest { _opaque: () }
#[verifier::external_body] pub struct ManifestContent { _opaque: () }
#[verifier::external_body] pub struct MftItem { _opaque: () }
#[verifier::external_body] pub struct MftIter { _opaque: () }
#[verifier::external_body] pub struct ManifestHash { _opaque: () }
#[verifier::external_body] pub struct DigestAlgorithm { _opaque: () }
#[verifier::external_body] pub struct HashMismatch { _opaque: () }
impl Crl {
    #[verifier::external_body]
    pub fn decode(source: Bytes) -> (r: Result<Crl, DecodeError>)
    { unimplemented!() }
}
impl Crl {
    #[verifier::external_body]
    pub fn contains(&self, serial: Serial) -> (r: bool)
    { unimplemented!() }
}
impl Crl {
    #[verifier::external_body]
    pub fn cache_serials(&mut self)
    { unimplemented!() }
}
impl Crl {
    #[verifier::external_body]
    pub fn verify_signature(&self, key: &PublicKey) -> (r: Result<(), ValidationError>)
    { unimplemented!() }
}
impl Crl {
    #[verifier::external_body]
    pub fn this_update(&self) -> (r: Time)
    { unimplemented!() }
}
impl Crl {
    #[verifier::external_body]
    pub fn next_update(&self) -> (r: Time)
    { unimplemented!() }
}
impl Crl {
    #[verifier::external_body]
    pub fn is_stale(&self) -> (r: bool)
    { unimplemented!() }
}
impl Crl {
    #[verifier::external_body]
    pub fn crl_number(&self) -> (r: Serial)
    { unimplemented!() }
}
impl Crl {
    #[verifier::external_body]
    pub fn authority_key_identifier(&self) -> (r: &KeyIdentifier)
    { unimplemented!() }
}
impl Crl {
    #[verifier::external_body]
    pub fn issuer(&self) -> (r: &X509Name)
    { unimplemented!() }
}
impl Manifest {
    #[verifier::external_body]
    pub fn decode(source: Bytes, strict: bool) -> (r: Result<Manifest, DecodeError>)
    { unimplemented!() }
}
impl Manifest {
    #[verifier::external_body]
    pub fn validate(self, issuer: &ResourceCert, strict: bool) -> (r: Result<(ResourceCert, ManifestContent), ValidationError>)
    { unimplemented!() }
}
impl Manifest {
    #[verifier::external_body]
    pub fn validate_at(self, issuer: &ResourceCert, strict: bool, now: Time) -> (r: Result<(ResourceCert, ManifestContent), ValidationError>)
    { unimplemented!() }
}
impl Manifest {
    #[verifier::external_body]
    pub fn cert(&self) -> (r: &Cert)
    { unimplemented!() }
}
impl Manifest {
    #[verifier::external_body]
    pub fn content(&self) -> (r: &ManifestContent)
    { unimplemented!() }
}
impl ManifestContent {
    #[verifier::external_body]
    pub fn manifest_number(&self) -> (r: Serial)
    { unimplemented!() }
}
impl ManifestContent {
    #[verifier::external_body]
    pub fn this_update(&self) -> (r: Time)
    { unimplemented!() }
}
impl ManifestContent {
    #[verifier::external_body]
    pub fn next_update(&self) -> (r: Time)
    { unimplemented!() }
}
impl ManifestContent {
    #[verifier::external_body]
    pub fn file_hash_alg(&self) -> (r: DigestAlgorithm)
    { unimplemented!() }
}
impl ManifestContent {
    #[verifier::external_body]
    pub fn iter(&self) -> (r: MftIter)
    { unimplemented!() }
}
impl ManifestContent {
    #[verifier::external_body]
    pub fn len(&self) -> (r: usize)
    { unimplemented!() }
}
impl ManifestContent {
    #[verifier::external_body]
    pub fn is_empty(&self) -> (r: bool)
    { unimplemented!() }
}
impl ManifestContent {
    #[verifier::external_body]
    pub fn is_stale(&self) -> (r: bool)
    { unimplemented!() }
}
impl MftItem {
    #[verifier::external_body]
    pub fn new(file: Bytes, hash: Bytes) -> (r: MftItem)
    { unimplemented!() }
}
impl MftItem {
    #[verifier::external_body]
    pub fn file(&self) -> (r: &Bytes)
    { unimplemented!() }
}
impl MftItem {
    #[verifier::external_body]
    pub fn hash(&self) -> (r: &Bytes)
    { unimplemented!() }
}
impl MftItem {
    #[verifier::external_body]
    pub fn into_pair(self) -> (r: (Bytes, Bytes))
    { unimplemented!() }
}
impl MftIter {
    #[verifier::external_body]
    pub fn next(&mut self) -> (r: Option<MftItem>)
    { unimplemented!() }
}
impl ManifestHash {
    #[verifier::external_body]
    pub fn new(hash: Bytes, algorithm: DigestAlgorithm) -> (r: ManifestHash)
    { unimplemented!() }
}
impl ManifestHash {
    #[verifier::external_body]
    pub fn verify(&self, t: &Bytes) -> (r: Result<(), HashMismatch>)
    { unimplemented!() }
}
impl ManifestHash {
    #[verifier::external_body]
    pub fn algorithm(&self) -> (r: DigestAlgorithm)
    { unimplemented!() }
}
#[verifier::external_body] pub struct Roa { _opaque: () }
#[verifier::external_body] pub struct Aspa { _opaque: () }
#[verifier::external_body] pub struct SignedObject { _opaque: () }
#[verifier::external_body] pub struct RouteOriginAttestation { _opaque: () }
#[verifier::external_body] pub struct AsProviderAttestation { _opaque: () }
#[verifier::external_body] pub struct ProviderAsSet { _opaque: () }
#[verifier::external_body] pub struct SmallAsnSet { _opaque: () }
#[verifier::external_body] pub struct Asn { _opaque: () }
impl Roa {
    #[verifier::external_body]
    pub fn decode(source: Bytes, strict: bool) -> (r: Result<Roa, DecodeError>)
    { unimplemented!() }
}
impl Roa {
    #[verifier::external_body]
    pub fn cert(&self) -> (r: &Cert)
    { unimplemented!() }
}
impl Roa {
    #[verifier::external_body]
    pub fn content(&self) -> (r: &RouteOriginAttestation)
    { unimplemented!() }
}
impl Aspa {
    #[verifier::external_body]
    pub fn decode(source: Bytes, strict: bool) -> (r: Result<Aspa, DecodeError>)
    { unimplemented!() }
}
impl Aspa {
    #[verifier::external_body]
    pub fn cert(&self) -> (r: &Cert)
    { unimplemented!() }
}
impl Aspa {
    #[verifier::external_body]
    pub fn content(&self) -> (r: &AsProviderAttestation)
    { unimplemented!() }
}
impl SignedObject {
    #[verifier::external_body]
    pub fn decode(source: Bytes, strict: bool) -> (r: Result<SignedObject, DecodeError>)
    { unimplemented!() }
}
impl SignedObject {
    #[verifier::external_body]
    pub fn cert(&self) -> (r: &Cert)
    { unimplemented!() }
}
impl SignedObject {
    #[verifier::external_body]
    pub fn signing_time(&self) -> (r: Time)
    { unimplemented!() }
}
impl SignedObject {
    #[verifier::external_body]
    pub fn validate(self, issuer: &ResourceCert, strict: bool) -> (r: Result<ResourceCert, ValidationError>)
    { unimplemented!() }
}
impl SignedObject {
    #[verifier::external_body]
    pub fn validate_at(self, issuer: &ResourceCert, strict: bool, now: Time) -> (r: Result<ResourceCert, ValidationError>)
    { unimplemented!() }
}
#[verifier::external_body] pub struct RoaIpAddresses { _opaque: () }
#[verifier::external_body] pub struct RoaIpAddress { _opaque: () }
#[verifier::external_body] pub struct FriendlyRoaIpAddress { _opaque: () }
#[verifier::external_body] pub struct ResPrefix { _opaque: () }
impl RouteOriginAttestation {
    #[verifier::external_body]
    pub fn v4_addrs(&self) -> (r: &RoaIpAddresses)
    { unimplemented!() }
}
impl RouteOriginAttestation {
    #[verifier::external_body]
    pub fn v6_addrs(&self) -> (r: &RoaIpAddresses)
    { unimplemented!() }
}
impl RoaIpAddresses {
    #[verifier::external_body]
    pub fn is_empty(&self) -> (r: bool)
    { unimplemented!() }
}
impl RouteOriginAttestation {
    #[verifier::external_body]
    pub fn as_id(&self) -> (r: Asn)
    { unimplemented!() }
}
#[verifier::external_body] pub struct RoaIpAddressIter<'a> { _p: &'a () }
#[verifier::external_body] pub struct FriendlyIter<'a> { _p: &'a () }
impl RoaIpAddresses {
    #[verifier::external_body]
    pub fn iter(&self) -> (r: RoaIpAddressIter<'_>)
    { unimplemented!() }
}
impl<'a> RoaIpAddressIter<'a> {
    #[verifier::external_body]
    pub fn next(&mut self) -> (r: Option<RoaIpAddress>)
    { unimplemented!() }
}
impl RouteOriginAttestation {
    #[verifier::external_body]
    pub fn iter(&self) -> (r: FriendlyIter<'_>)
    { unimplemented!() }
}
impl<'a> FriendlyIter<'a> {
    #[verifier::external_body]
    pub fn next(&mut self) -> (r: Option<FriendlyRoaIpAddress>)
    { unimplemented!() }
}
impl RoaIpAddress {
    #[verifier::external_body]
    pub fn prefix(self) -> (r: ResPrefix)
    { unimplemented!() }
}
impl RoaIpAddress {
    #[verifier::external_body]
    pub fn max_length(self) -> (r: Option<u8>)
    { unimplemented!() }
}
impl FriendlyRoaIpAddress {
    #[verifier::external_body]
    pub fn prefix(self) -> (r: ResPrefix)
    { unimplemented!() }
}
impl FriendlyRoaIpAddress {
    #[verifier::external_body]
    pub fn is_v4(self) -> (r: bool)
    { unimplemented!() }
}
impl FriendlyRoaIpAddress {
    #[verifier::external_body]
    pub fn address_length(self) -> (r: u8)
    { unimplemented!() }
}
impl FriendlyRoaIpAddress {
    #[verifier::external_body]
    pub fn max_length(self) -> (r: u8)
    { unimplemented!() }
}
impl ResPrefix {
    #[verifier::external_body]
    pub fn addr_len(self) -> (r: u8)
    { unimplemented!() }
}
impl AsProviderAttestation {
    #[verifier::external_body]
    pub fn customer_as(&self) -> (r: Asn)
    { unimplemented!() }
}
impl AsProviderAttestation {
    #[verifier::external_body]
    pub fn provider_as_set(&self) -> (r: &ProviderAsSet)
    { unimplemented!() }
}
impl ProviderAsSet {
    #[verifier::external_body]
    pub fn to_set(&self) -> (r: SmallAsnSet)
    { unimplemented!() }
}
impl ProviderAsSet {
    #[verifier::external_body]
    pub fn len(&self) -> (r: usize)
    { unimplemented!() }
}
impl SmallAsnSet {
    #[verifier::external_body]
    pub fn len(&self) -> (r: usize)
    { unimplemented!() }
}
impl SmallAsnSet {
    #[verifier::external_body]
    pub fn is_empty(&self) -> (r: bool)
    { unimplemented!() }
}
impl Asn {
    #[verifier::external_body]
    pub fn into_u32(self) -> (r: u32)
    { unimplemented!() }
}
impl Asn {
    #[verifier::external_body]
    pub fn from_u32(v: u32) -> (r: Asn)
    { unimplemented!() }
}
impl RsyncUri {
    #[verifier::external_body]
    pub fn as_str(&self) -> (r: &str)
    { unimplemented!() }
}
impl RsyncUri {
    #[verifier::external_body]
    pub fn to_bytes(&self) -> (r: Bytes)
    { unimplemented!() }
}
impl RsyncUri {
    #[verifier::external_body]
    pub fn authority(&self) -> (r: &str)
    { unimplemented!() }
}
impl RsyncUri {
    #[verifier::external_body]
    pub fn module_name(&self) -> (r: &str)
    { unimplemented!() }
}
impl RsyncUri {
    #[verifier::external_body]
    pub fn module(&self) -> (r: &str)
    { unimplemented!() }
}
impl RsyncUri {
    #[verifier::external_body]
    pub fn path(&self) -> (r: &str)
    { unimplemented!() }
}
impl RsyncUri {
    #[verifier::external_body]
    pub fn path_is_dir(&self) -> (r: bool)
    { unimplemented!() }
}
impl RsyncUri {
    #[verifier::external_body]
    pub fn parent(&self) -> (r: Option<RsyncUri>)
    { unimplemented!() }
}
impl RsyncUri {
    #[verifier::external_body]
    pub fn ends_with(&self, extension: &str) -> (r: bool)
    { unimplemented!() }
}
impl RsyncUri {
    #[verifier::external_body]
    pub fn relative_to(&self, other: &RsyncUri) -> (r: Option<&str>)
    { unimplemented!() }
}
impl RsyncUri {
    #[verifier::external_body]
    pub fn is_parent_of(&self, other: &RsyncUri) -> (r: bool)
    { unimplemented!() }
}
impl RsyncUri {
    #[verifier::external_body]
    pub fn has_dubious_authority(&self) -> (r: bool)
    { unimplemented!() }
}
impl HttpsUri {
    #[verifier::external_body]
    pub fn as_str(&self) -> (r: &str)
    { unimplemented!() }
}
impl HttpsUri {
    #[verifier::external_body]
    pub fn authority(&self) -> (r: &str)
    { unimplemented!() }
}
impl HttpsUri {
    #[verifier::external_body]
    pub fn path(&self) -> (r: &str)
    { unimplemented!() }
}
impl Clone for HttpsUri {
    #[verifier::external_body]
    fn clone(&self) -> (r: HttpsUri) ensures r == *self { unimplemented!() }
}
impl Bytes {
    #[verifier::external_body]
    pub fn new() -> (r: Bytes)
    { unimplemented!() }
}
impl Validity {
    #[verifier::external_body]
    pub fn new(not_before: Time, not_after: Time) -> (r: Validity)
    { unimplemented!() }
}
impl Validity {
    #[verifier::external_body]
    pub fn not_before(self) -> (r: Time)
    { unimplemented!() }
}
impl Validity {
    #[verifier::external_body]
    pub fn not_after(self) -> (r: Time)
    { unimplemented!() }
}
impl Validity {
    #[verifier::external_body]
    pub fn trim(self, other: Validity) -> (r: Validity)
    { unimplemented!() }
}
impl Time {
    #[verifier::external_body]
    pub fn now() -> (r: Time)
    { unimplemented!() }
}
impl Time {
    #[verifier::external_body]
    pub fn five_minutes_ago() -> (r: Time)
    { unimplemented!() }
}
impl Time {
    #[verifier::external_body]
    pub fn five_minutes_from_now() -> (r: Time)
    { unimplemented!() }
}
impl Time {
    #[verifier::external_body]
    pub fn tomorrow() -> (r: Time)
    { unimplemented!() }
}
impl Time {
    #[verifier::external_body]
    pub fn next_week() -> (r: Time)
    { unimplemented!() }
}
impl Time {
    #[verifier::external_body]
    pub fn next_year() -> (r: Time)
    { unimplemented!() }
}
impl Time {
    #[verifier::external_body]
    pub fn timestamp(&self) -> (r: i64)
    { unimplemented!() }
}
impl Time {
    #[verifier::external_body]
    pub fn to_binary_time(self) -> (r: i64)
    { unimplemented!() }
}
impl Clone for Time {
    #[verifier::external_body]
    fn clone(&self) -> (r: Time) ensures r == *self { unimplemented!() }
}
impl Copy for Time {}
impl Clone for Validity {
    #[verifier::external_body]
    fn clone(&self) -> (r: Validity) ensures r == *self { unimplemented!() }
}
impl Copy for Validity {}
impl Clone for Serial {
    #[verifier::external_body]
    fn clone(&self) -> (r: Serial) ensures r == *self { unimplemented!() }
}
impl Copy for Serial {}
impl Clone for KeyIdentifier {
    #[verifier::external_body]
    fn clone(&self) -> (r: KeyIdentifier) ensures r == *self { unimplemented!() }
}
impl Copy for KeyIdentifier {}
impl Clone for Asn {
    #[verifier::external_body]
    fn clone(&self) -> (r: Asn) ensures r == *self { unimplemented!() }
}
impl Copy for Asn {}
impl PublicKey {
    #[verifier::external_body]
    pub fn allow_rpki_cert(&self) -> (r: bool)
    { unimplemented!() }
}
impl PublicKey {
    #[verifier::external_body]
    pub fn allow_router_cert(&self) -> (r: bool)
    { unimplemented!() }
}
impl PublicKey {
    #[verifier::external_body]
    pub fn key_identifier(&self) -> (r: KeyIdentifier)
    { unimplemented!() }
}
impl PublicKey {
    #[verifier::external_body]
    pub fn to_info_bytes(&self) -> (r: Bytes)
    { unimplemented!() }
}
impl PublicKey {
    #[verifier::external_body]
    pub fn bits_bytes(&self) -> (r: Bytes)
    { unimplemented!() }
}
impl AsResources {
    #[verifier::external_body]
    pub fn is_inherited(&self) -> (r: bool)
    { unimplemented!() }
}
impl AsResources {
    #[verifier::external_body]
    pub fn is_present(&self) -> (r: bool)
    { unimplemented!() }
}
impl IpResources {
    #[verifier::external_body]
    pub fn is_inherited(&self) -> (r: bool)
    { unimplemented!() }
}
impl IpResources {
    #[verifier::external_body]
    pub fn is_present(&self) -> (r: bool)
    { unimplemented!() }
}
impl AsBlocks {
    #[verifier::external_body]
    pub fn is_empty(&self) -> (r: bool)
    { unimplemented!() }
}
impl IpBlocks {
    #[verifier::external_body]
    pub fn is_empty(&self) -> (r: bool)
    { unimplemented!() }
}
impl<'a> CollectorRun<'a> {
    #[verifier::external_body]
    fn was_updated(&self, ca: &CaCert) -> (r: bool)
    { unimplemented!() }
}
impl RunFailed {
    #[verifier::external_body]
    pub fn is_fatal(self) -> (r: bool)
    { unimplemented!() }
}
impl RunFailed {
    #[verifier::external_body]
    pub fn should_retry(self) -> (r: bool)
    { unimplemented!() }
}
