// Environment of unit `stored_site`: the call site of validate_stored_manifest
// (PubPoint::process_stored). Everything process_stored calls is ASSUMED
// here; the callee contracts that matter are proved in other units (named).

#[verifier::external_body] pub struct RsyncUri { _opaque: () }
#[verifier::external_body] pub struct HttpsUri { _opaque: () }
#[verifier::external_body] pub struct TalUri { _opaque: () }
#[verifier::external_body] pub struct Tal { _opaque: () }
#[verifier::external_body] pub struct Cert { _opaque: () }
#[verifier::external_body] pub struct ResourceCert { _opaque: () }
#[verifier::external_body] pub struct Crl { _opaque: () }
#[verifier::external_body] pub struct Time { _opaque: () }
#[verifier::external_body] pub struct Serial { _opaque: () }
#[verifier::external_body] pub struct Validity { _opaque: () }
#[verifier::external_body] pub struct ManifestContent { _opaque: () }
#[verifier::external_body] pub struct ManifestHash { _opaque: () }
#[verifier::external_body] pub struct RouteOriginAttestation { _opaque: () }
#[verifier::external_body] pub struct AsProviderAttestation { _opaque: () }
#[verifier::external_body] pub struct Collector { _opaque: () }
#[verifier::external_body] pub struct Store { _opaque: () }
#[verifier::external_body] pub struct Metrics { _opaque: () }
#[verifier::external_body] pub struct RunMetrics { _opaque: () }
#[verifier::external_body] pub struct CollectorRun<'a> { _p: &'a Collector }
#[verifier::external_body] pub struct StoreRun<'a> { _p: &'a Store }
#[verifier::external_body] pub struct PathBuf { _opaque: () }
#[verifier::external_body] pub struct AtomicBool { _opaque: () }
#[verifier::external_body] pub struct FmtArgs { _opaque: () }
#[verifier::external_body] pub struct LogBookWriter { _opaque: () }
#[verifier::external_body] pub struct ParseError { _opaque: () }

#[verifier::external_body] pub struct Bytes { _opaque: () }
impl Clone for Bytes {
    #[verifier::external_body]
    fn clone(&self) -> (r: Bytes) ensures r == *self, { unimplemented!() }
}

impl ParseError {
    #[verifier::external_body]
    pub fn is_fatal(&self) -> (r: bool) { unimplemented!() }
}

// ---- store::StoredPoint: the stored manifest and a finite iterator over the stored objects
#[verifier::external_body] struct StoredPoint { _opaque: () }   // not pub: its Item names the extracted (private) StoredObject
uninterp spec fn stored_remaining(s: &StoredPoint) -> Seq<Result<StoredObject, ParseError>>;
uninterp spec fn stored_count(s: &StoredPoint) -> nat;
impl StoredPoint {
    pub uninterp spec fn manifest_spec(&self) -> Option<StoredManifest>;
    #[verifier::external_body]
    pub fn manifest(&self) -> (r: Option<&StoredManifest>)
        ensures match r { Some(m) => self.manifest_spec() == Some(*m), None => self.manifest_spec() is None },
    { unimplemented!() }
}
impl Iterator for StoredPoint {
    type Item = Result<StoredObject, ParseError>;
    #[verifier::external_body]
    fn next(&mut self) -> Option<Result<StoredObject, ParseError>> { unimplemented!() }
}
impl vstd::std_specs::iter::IteratorSpecImpl for StoredPoint {
    open spec fn obeys_prophetic_iter_laws(&self) -> bool { true }
    #[verifier::prophetic]
    closed spec fn remaining(&self) -> Seq<Result<StoredObject, ParseError>> { stored_remaining(self) }
    closed spec fn decrease(&self) -> Option<nat> { Some(stored_count(self)) }
    #[verifier::prophetic]
    open spec fn will_return_none(&self) -> bool { true }
    open spec fn peek(&self, index: int) -> Option<Result<StoredObject, ParseError>> { None }
}

// ---- R2 / R14 helpers
#[verifier::external_body]
pub fn fmt_opaque() -> (r: FmtArgs) { unimplemented!() }
#[verifier::external_body]
pub fn metric_inc(c: u32) -> (r: u32) { unimplemented!() }
impl LogBookWriter {
    #[verifier::external_body]
    pub fn warn(&mut self, args: FmtArgs) { unimplemented!() }
}

// ---- ghost: number of publication points committed so far (bumped by accept_point only)
pub uninterp spec fn commits(m: &RunMetrics) -> nat;

// the verdict of validate_stored_manifest for this point and this stored manifest
// (unit manifest_policy: res is Ok <==> stored_accepted(old(self), stored_manifest))
pub uninterp spec fn stored_verdict<'a, P: ProcessRun>(pp: &PubPoint<'a, P>, m: &StoredManifest) -> bool;

impl ValidPointManifest {
    #[verifier::external_body]
    fn point_validity<T: ProcessPubPoint>(&self, processor: &mut T) { unimplemented!() }
}

impl<'a, P: ProcessRun> PubPoint<'a, P> {
    #[verifier::external_body]
    fn validate_stored_manifest(&mut self, stored_manifest: &StoredManifest) -> (r: Result<ValidPointManifest, Failed>)
        ensures r is Ok <==> stored_verdict(old(self), stored_manifest),
    { unimplemented!() }

    #[verifier::external_body]
    fn process_object(&mut self, uri: &RsyncUri, content: Bytes, manifest: &mut ValidPointManifest,
                      ca_task: &mut Vec<CaTask<P::PubPoint>>) -> (r: Result<bool, Failed>)
    { unimplemented!() }

    #[verifier::external_body]
    fn accept_point(self, manifest: ValidPointManifest, metrics: &mut RunMetrics)
        ensures commits(final(metrics)) == commits(old(metrics)) + 1,
    { unimplemented!() }

    #[verifier::external_body]
    fn reject_point(self, metrics: &mut RunMetrics)
        ensures commits(final(metrics)) == commits(old(metrics)),
    { unimplemented!() }
}
