//@ fn PubPoint::process_stored
//@ spec
    ensures
        // C06 (stored-data path): a point without a stored manifest, or whose stored manifest / CRL
        // the policy-aware validation refuses, is rejected: it commits no payload and returns no
        // child CA tasks, so none of its descendants is processed
        (store.manifest_spec() is None || !stored_verdict(&self, &store.manifest_spec()->Some_0))
            ==> commits(final(metrics)) == commits(old(metrics)) && (res matches Ok(v) ==> v@.len() == 0),
        // a point is committed at most once, and an error commits nothing
        commits(final(metrics)) <= commits(old(metrics)) + 1,
        res is Err ==> commits(final(metrics)) == commits(old(metrics)),
        // child tasks are only ever returned together with a commit
        res matches Ok(v) ==> (v@.len() > 0 ==> commits(final(metrics)) == commits(old(metrics)) + 1),
//@ loop 1
            invariant
                commits(metrics) == commits(old(metrics)),
                store.decrease() is Some,
            decreases store.decrease()->Some_0,
//@ fn CaCert::cert
//@ spec
    ensures res == &self.cert,
//@ fn CaCert::uri
//@ spec
    ensures res == &self.uri,
//@ fn CaCert::ca_repository
//@ spec
    ensures res == &self.ca_repository,
//@ fn CaCert::rpki_manifest
//@ spec
    ensures res == &self.rpki_manifest,
//@ fn CaCert::rpki_notify
//@ spec
    ensures res == self.cert.rpki_notify_spec(),
//@ fn RunFailed::fatal
//@ spec
    ensures res == (RunFailed { fatal: true }),
//@ fn RunFailed::retry
//@ spec
    ensures res == (RunFailed { fatal: false }),
//@ fn RunFailed::is_fatal
//@ spec
    ensures res == self.fatal,
//@ fn RunFailed::should_retry
//@ spec
    ensures res == !self.fatal,
