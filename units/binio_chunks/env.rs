// Environment of unit `binio_chunks` (C28/C27). Everything here is ASSUMED.

// std::io::Error; `from_reader()`: this error value was returned by the reader.
#[verifier::external_body] pub struct IoError { _opaque: () }
impl IoError {
    pub uninterp spec fn from_reader(&self) -> bool;
}
// utils::binio::ParseError and its `From<io::Error>` (fatal unless UnexpectedEof).
#[verifier::external_body] pub struct ParseError { _opaque: () }
pub uninterp spec fn parse_error_of(e: IoError) -> ParseError;
impl vstd::std_specs::convert::FromSpecImpl<IoError> for ParseError {
    open spec fn obeys_from_spec() -> bool { true }
    open spec fn from_spec(v: IoError) -> ParseError { parse_error_of(v) }
}
impl From<IoError> for ParseError {
    #[verifier::external_body]
    fn from(value: IoError) -> ParseError { unimplemented!() }
}
impl ParseError {
    #[verifier::external_body]
    pub fn format<T>(err: T) -> (r: ParseError) { unimplemented!() }
}

// std::io::Read over a ghost input stream: `remaining()` are the octets not yet consumed.
pub trait IoRead {
    spec fn remaining(&self) -> Seq<u8>;
    // ghost: some read on this reader has returned an error
    spec fn failed(&self) -> bool;
    // read_exact: Ok => exactly buf.len() next octets delivered and consumed;
    // Err => I/O failure or EOF, with some prefix of the input consumed.
    fn read_exact(&mut self, buf: &mut [u8]) -> (r: Result<(), IoError>)
        ensures
            final(buf)@.len() == old(buf)@.len(),
            r is Ok ==> old(self).remaining().len() >= old(buf)@.len()
                && final(buf)@ == old(self).remaining().subrange(0, old(buf)@.len() as int)
                && final(self).remaining() == old(self).remaining().skip(old(buf)@.len() as int),
            r matches Err(e) ==> e.from_reader()
                && exists|k: int| 0 <= k <= old(self).remaining().len()
                       && final(self).remaining() == #[trigger] old(self).remaining().skip(k),
            final(self).failed() == (old(self).failed() || r is Err);
    fn read(&mut self, buf: &mut [u8]) -> (r: Result<usize, IoError>)
        ensures
            final(buf)@.len() == old(buf)@.len(),
            r matches Ok(n) ==> n <= old(buf)@.len() && n <= old(self).remaining().len()
                && final(buf)@.subrange(0, n as int) == old(self).remaining().subrange(0, n as int)
                && final(self).remaining() == old(self).remaining().skip(n as int),
            r matches Err(e) ==> e.from_reader() && final(self).remaining() == old(self).remaining(),
            final(self).failed() == (old(self).failed() || r is Err);
}

pub assume_specification<T: Ord + core::marker::Destruct> [std::cmp::min] (a: T, b: T) -> (r: T)
    ensures <T as vstd::std_specs::cmp::OrdSpec>::obeys_cmp_spec() ==> r == (if vstd::std_specs::cmp::OrdSpec::cmp_spec(&b, &a) == std::cmp::Ordering::Less { b } else { a });
pub assume_specification<T: Ord + core::marker::Destruct> [std::cmp::max] (a: T, b: T) -> (r: T)
    ensures <T as vstd::std_specs::cmp::OrdSpec>::obeys_cmp_spec() ==> r == (if vstd::std_specs::cmp::OrdSpec::cmp_spec(&b, &a) == std::cmp::Ordering::Less { a } else { b });
// `&mut v[range]` on a Vec (IndexMut with a range): vstd checks the bounds but says nothing about
// the slice. ASSUMED (std semantics): the slice is that part of the vector, and what is written
// through it replaces exactly that part.
pub uninterp spec fn idx_lo<I>(i: I) -> int;
pub uninterp spec fn idx_hi<I>(i: I, len: int) -> int;
pub uninterp spec fn as_seq<O: ?Sized, T>(o: &O) -> Seq<T>;
pub open spec fn slice_facts<T>() -> bool {
    &&& forall|s: &[T]| #[trigger] as_seq::<[T], T>(s) == s@
    &&& forall|r: RangeTo<usize>| #[trigger] idx_lo(r) == 0
    &&& forall|r: RangeTo<usize>, len: int| #[trigger] idx_hi(r, len) == r.end as int
    &&& forall|r: Range<usize>| #[trigger] idx_lo(r) == r.start as int
    &&& forall|r: Range<usize>, len: int| #[trigger] idx_hi(r, len) == r.end as int
    &&& forall|r: RangeFrom<usize>| #[trigger] idx_lo(r) == r.start as int
    &&& forall|r: RangeFrom<usize>, len: int| #[trigger] idx_hi(r, len) == len
    &&& forall|r: RangeFull| #[trigger] idx_lo(r) == 0
    &&& forall|r: RangeFull, len: int| #[trigger] idx_hi(r, len) == len
}
#[verifier::external_body]
pub proof fn axiom_slices<T>()
    ensures slice_facts::<T>(),
{ unimplemented!() }
pub assume_specification<T, I: core::slice::SliceIndex<[T]>, A: std::alloc::Allocator> [<Vec<T,A> as core::ops::IndexMut<I>>::index_mut] (v: &mut Vec<T,A>, i: I) -> (s: &mut <Vec<T,A> as core::ops::Index<I>>::Output)
    ensures
        0 <= idx_lo(i) <= idx_hi(i, old(v)@.len() as int) <= old(v)@.len(),
        as_seq::<_, T>(&*s) == old(v)@.subrange(idx_lo(i), idx_hi(i, old(v)@.len() as int)),
        final(v)@ == old(v)@.subrange(0, idx_lo(i)) + as_seq::<_, T>(&*final(s)) + old(v)@.skip(idx_hi(i, old(v)@.len() as int)),
        as_seq::<_, T>(&*final(s)).len() == as_seq::<_, T>(&*s).len(),
;
// the names the extracted text uses (`io::Read`, `io::Error`)
pub mod io { pub use super::IoRead as Read; pub use super::IoError as Error; }
