//@ fn read_exact_vec
//@ spec
    ensures
        read_vec_post(old(source).remaining(), final(source).remaining(), len, res),
        // Err only from the reader: an error is returned exactly when a read on the source failed
        final(source).failed() == (old(source).failed() || res is Err),
//@ entry
    proof { lemma_chunks(source.remaining()); axiom_slices::<u8>(); }
//@ fn read_large_vec
//@ spec
    ensures
        read_vec_post(old(source).remaining(), final(source).remaining(), len, res),
        // Err only from the reader: an error is returned exactly when a read on the source failed
        final(source).failed() == (old(source).failed() || res is Err),
//@ beforeloop 1
    let ghost input = source.remaining();
    proof { lemma_chunks(input); axiom_slices::<u8>(); }
//@ loop 1
        invariant
            left <= len,
            // C27: the chunk buffer is exactly MAX_TRUSTED_LEN octets; the result holds exactly the
            // octets read so far
            chunk@.len() == MAX_TRUSTED_LEN,
            res@.len() + left == len,
            // C28: what has been collected is the consumed prefix of the input, in order
            input.len() >= len - left,
            res@ == input.subrange(0, len - left),
            source.remaining() == input.skip(len - left),
            source.failed() == old(source).failed(),
            input == old(source).remaining(),
            chunk_facts(input), slice_facts::<u8>(),
        decreases left,
//@ fn append_chunk
//@ spec
    ensures final(target)@ == old(target)@ + chunk@,
//@ global
// C28/C27: the contract of read_exact_vec / read_large_vec.
spec fn read_vec_post(before: Seq<u8>, after: Seq<u8>, len: usize, res: Result<Vec<u8>, ParseError>) -> bool {
    // Ok: the value is exactly the next `len` octets of the stream and exactly they are consumed
    &&& (res matches Ok(v) ==> before.len() >= len && v@ == before.subrange(0, len as int) && after == before.skip(len as int))
    // Err: some prefix of the input has been consumed
    &&& (res is Err ==> (exists|k: int| 0 <= k <= before.len() && after == #[trigger] before.skip(k)))
}

// Facts about cutting a sequence into consecutive pieces (proved below); carried as a loop
// invariant so that they are also available after the loop (robustness against restructured loops).
spec fn chunk_facts(s: Seq<u8>) -> bool {
    &&& forall|a: int, n: int| 0 <= a && 0 <= n && a + n <= s.len() ==>
            #[trigger] (s.subrange(0, a) + s.skip(a).subrange(0, n)) == s.subrange(0, a + n)
    &&& forall|a: int, n: int| 0 <= a && 0 <= n && a + n <= s.len() ==>
            #[trigger] s.skip(a).skip(n) == s.skip(a + n)
    &&& s.skip(0) == s
    &&& s.subrange(0, 0) == Seq::<u8>::empty()
    &&& forall|a: int| 0 <= a <= s.len() ==> (#[trigger] s.skip(a)).len() == s.len() - a
}
proof fn lemma_chunks(s: Seq<u8>)
    ensures chunk_facts(s),
{
    assert forall|a: int, n: int| 0 <= a && 0 <= n && a + n <= s.len() implies
            #[trigger] (s.subrange(0, a) + s.skip(a).subrange(0, n)) == s.subrange(0, a + n) by {
        assert(s.subrange(0, a) + s.skip(a).subrange(0, n) =~= s.subrange(0, a + n));
    }
    assert forall|a: int, n: int| 0 <= a && 0 <= n && a + n <= s.len() implies
            #[trigger] s.skip(a).skip(n) == s.skip(a + n) by {
        assert(s.skip(a).skip(n) =~= s.skip(a + n));
    }
    assert(s.skip(0) =~= s);
    assert(s.subrange(0, 0) =~= Seq::<u8>::empty());
}
