// Environment of unit `conditional` (C16, and the HTTP clause of C15). Everything here is ASSUMED.

// ===== rpki::rtr::Serial: copied from units/history/env.rs
#[derive(Clone, Copy)]
pub struct Serial(pub u32);

pub open spec fn serial_cmp(a: u32, b: u32) -> Option<Ordering> {
    if a == b { Some(Ordering::Equal) }
    else if a < b {
        if b - a < 0x8000_0000 { Some(Ordering::Less) }
        else if b - a > 0x8000_0000 { Some(Ordering::Greater) }
        else { None }
    } else {
        if a - b < 0x8000_0000 { Some(Ordering::Greater) }
        else if a - b > 0x8000_0000 { Some(Ordering::Less) }
        else { None }
    }
}

pub open spec fn wadd(a: u32, b: int) -> u32 { ((a as int + b) % 0x1_0000_0000) as u32 }
pub open spec fn wsub(a: u32, b: u32) -> u32 { ((a as int - b as int) % 0x1_0000_0000) as u32 }

impl PartialEqSpecImpl for Serial {
    open spec fn obeys_eq_spec() -> bool { true }
    open spec fn eq_spec(&self, other: &Serial) -> bool { self.0 == other.0 }
}
impl PartialEq for Serial {
    #[verifier::external_body]
    fn eq(&self, other: &Self) -> bool { unimplemented!() }
}
impl PartialEqSpecImpl<u32> for Serial {
    open spec fn obeys_eq_spec() -> bool { true }
    open spec fn eq_spec(&self, other: &u32) -> bool { self.0 == *other }
}
impl PartialEq<u32> for Serial {
    #[verifier::external_body]
    fn eq(&self, other: &u32) -> bool { unimplemented!() }
}
impl PartialOrdSpecImpl for Serial {
    open spec fn obeys_partial_cmp_spec() -> bool { true }
    open spec fn partial_cmp_spec(&self, other: &Serial) -> Option<Ordering> { serial_cmp(self.0, other.0) }
}
impl PartialOrd for Serial {
    #[verifier::external_body]
    fn partial_cmp(&self, other: &Serial) -> Option<Ordering> { unimplemented!() }
}
impl Serial {
    #[verifier::external_body]
    pub fn add(self, other: u32) -> (r: Serial)
        requires other <= 0x7FFF_FFFF,
        ensures r.0 == wadd(self.0, other as int),
    { unimplemented!() }
}
impl vstd::std_specs::convert::FromSpecImpl<u32> for Serial {
    open spec fn obeys_from_spec() -> bool { true }
    open spec fn from_spec(v: u32) -> Serial { Serial(v) }
}
impl From<u32> for Serial {
    #[verifier::external_body]
    fn from(value: u32) -> Serial { unimplemented!() }
}


// ===== time: mathematical integers (nanoseconds), as in units/schedule/env.rs
#[derive(Clone, Copy)] pub struct Duration { pub ns: Ghost<nat> }
#[derive(Clone, Copy)] pub struct SystemTime { pub t: Ghost<int> }
#[derive(Clone, Copy)] pub struct Utc { pub _z: Ghost<int> }
#[derive(Clone, Copy)] #[verifier::reject_recursive_types(T)]
pub struct DateTime<T> { pub t: Ghost<int>, pub _tz: Ghost<T> }
impl PartialEqSpecImpl for DateTime<Utc> {
    open spec fn obeys_eq_spec() -> bool { true }
    open spec fn eq_spec(&self, other: &DateTime<Utc>) -> bool { self.t@ == other.t@ }
}
impl PartialEq for DateTime<Utc> { #[verifier::external_body] fn eq(&self, other: &Self) -> bool { unimplemented!() } }
impl PartialOrdSpecImpl for DateTime<Utc> {
    open spec fn obeys_partial_cmp_spec() -> bool { true }
    open spec fn partial_cmp_spec(&self, other: &DateTime<Utc>) -> Option<Ordering> {
        if self.t@ < other.t@ { Some(Ordering::Less) } else if self.t@ == other.t@ { Some(Ordering::Equal) } else { Some(Ordering::Greater) }
    }
}
impl PartialOrd for DateTime<Utc> { #[verifier::external_body] fn partial_cmp(&self, other: &Self) -> Option<Ordering> { unimplemented!() } }
impl DateTime<Utc> {
    pub open spec fn secs(&self) -> int { self.t@ / 1_000_000_000 }
    // whole seconds since the epoch (floor); assumed to fit (chrono's range)
    #[verifier::external_body]
    pub fn timestamp(&self) -> (r: i64) ensures r as int == self.secs() { unimplemented!() }
}
impl Utc { #[verifier::external_body] pub fn now() -> DateTime<Utc> { unimplemented!() } }

// ===== payload types (fields of PayloadHistory)
#[verifier::external_body] pub struct PayloadSnapshot { _opaque: () }
#[verifier::external_body] pub struct PayloadDelta { _opaque: () }
#[verifier::external_body] pub struct Metrics { _opaque: () }
#[verifier::external_body] pub struct FilterPolicy { _opaque: () }
#[verifier::external_body] pub struct Timing { _opaque: () }
impl PayloadDelta {
    pub uninterp spec fn serial_spec(&self) -> Serial;
    pub uninterp spec fn is_empty_spec(&self) -> bool;

    // accessors (delta.rs); is_empty/serial read the abstract state, the counts are not constrained
    #[verifier::external_body]
    pub fn is_empty(&self) -> (r: bool) ensures r == self.is_empty_spec() { unimplemented!() }
    #[verifier::external_body]
    pub fn serial(&self) -> (r: Serial) ensures r == self.serial_spec() { unimplemented!() }
    #[verifier::external_body] pub fn announce_len(&self) -> usize { unimplemented!() }
    #[verifier::external_body] pub fn withdraw_len(&self) -> usize { unimplemented!() }
}

// proved in unit history
impl PayloadHistory {
    #[verifier::external_body]
    fn serial(&self) -> (res: Serial) ensures res == self.cur() { unimplemented!() }
    #[verifier::external_body]
    fn rtr_session(&self) -> (res: u16) ensures res == self.session as u16 { unimplemented!() }
    #[verifier::external_body]
    fn is_active(&self) -> (res: bool) ensures res == self.current.is_some() { unimplemented!() }
    // (the clauses of the unit-history contract that do not speak about data-set contents)
    #[verifier::external_body]
    fn delta_since(&self, serial: Serial) -> (res: Option<Arc<PayloadDelta>>)
        requires self.chain(),
        ensures
            res is Some ==> wsub(self.cur().0, serial.0) as int <= self.deltas@.len(),
            (wsub(self.cur().0, serial.0) == 0 || (wsub(self.cur().0, serial.0) as int) < self.deltas@.len())
                ==> res is Some,
            res matches Some(d) ==> d.serial_spec() == self.cur(),
            res matches Some(d) ==> (serial == self.cur() ==> d.is_empty_spec()),
    { unimplemented!() }
}

// ===== the lock, as in units/history_locks/env.rs (readers only)
#[verifier::external_body] struct SharedHistory { _opaque: () }
impl SharedHistory {
    // ghost: h was the content seen by a read section of the current call
    pub uninterp spec fn held(&self, h: PayloadHistory) -> bool;
    #[verifier::external_body]
    fn read(&self) -> (g: &PayloadHistory) ensures self.held(*g) { unimplemented!() }
}

// ===== HTTP request side (hyper): header text is abstract
#[verifier::external_body] pub struct Request { _opaque: () }
#[verifier::external_body] pub struct Uri { _opaque: () }
#[verifier::external_body] pub struct HeaderMap { _opaque: () }
#[verifier::external_body] pub struct HeaderValue { _opaque: () }
#[verifier::external_body] pub struct GetAll<'a> { _p: &'a HeaderMap }
#[verifier::external_body] pub struct ValueIter<'a> { _p: &'a HeaderMap }
#[verifier::external_body] pub struct ToStrError { _opaque: () }

impl Request {
    pub uninterp spec fn headers_spec(&self) -> &HeaderMap;
    #[verifier::external_body] pub fn headers(&self) -> (r: &HeaderMap) ensures r == self.headers_spec() { unimplemented!() }
    #[verifier::external_body] pub fn uri(&self) -> &Uri { unimplemented!() }
    #[verifier::external_body] pub fn is_head(&self) -> bool { unimplemented!() }
    #[verifier::external_body] pub fn is_api(&self) -> bool { unimplemented!() }
    #[verifier::external_body] pub fn is_get_or_head(&self) -> bool { unimplemented!() }
    #[verifier::external_body] pub fn is_post(&self) -> bool { unimplemented!() }
}
impl Uri {
    #[verifier::external_body] pub fn path(&self) -> &str { unimplemented!() }
    #[verifier::external_body] pub fn query(&self) -> Option<&str> { unimplemented!() }
}
impl HeaderMap {
    // the values of all header lines with this name, in order
    pub uninterp spec fn values_spec(&self, name: Seq<char>) -> Seq<&HeaderValue>;
    #[verifier::external_body]
    pub fn get_all<'a>(&'a self, name: &str) -> (r: GetAll<'a>) ensures r.values() == self.values_spec(name@) { unimplemented!() }
    #[verifier::external_body]
    pub fn get<'a>(&'a self, name: &str) -> (r: Option<&'a HeaderValue>)
        ensures
            r is Some <==> self.values_spec(name@).len() > 0,
            r matches Some(v) ==> v == self.values_spec(name@)[0],
    { unimplemented!() }
}
impl<'a> GetAll<'a> {
    pub uninterp spec fn values(&self) -> Seq<&'a HeaderValue>;
    #[verifier::external_body]
    pub fn iter(&self) -> (r: ValueIter<'a>) ensures r.remaining() == self.values() { unimplemented!() }
}
pub uninterp spec fn value_iter_remaining<'a>(it: &ValueIter<'a>) -> Seq<&'a HeaderValue>;
pub uninterp spec fn value_iter_count(it: &ValueIter) -> nat;
impl<'a> Iterator for ValueIter<'a> {
    type Item = &'a HeaderValue;
    #[verifier::external_body] fn next(&mut self) -> Option<&'a HeaderValue> { unimplemented!() }
}
impl<'a> vstd::std_specs::iter::IteratorSpecImpl for ValueIter<'a> {
    open spec fn obeys_prophetic_iter_laws(&self) -> bool { true }
    #[verifier::prophetic]
    open spec fn remaining(&self) -> Seq<&'a HeaderValue> { value_iter_remaining(self) }
    open spec fn decrease(&self) -> Option<nat> { Some(value_iter_count(self)) }
    #[verifier::prophetic]
    open spec fn will_return_none(&self) -> bool { true }
    open spec fn peek(&self, index: int) -> Option<&'a HeaderValue> { None }
}
impl HeaderValue {
    // the value as text, if it is visible ASCII
    pub uninterp spec fn text_spec(&self) -> Option<Seq<char>>;
    #[verifier::external_body]
    pub fn to_str(&self) -> (r: Result<&str, ToStrError>)
        ensures r matches Ok(s) ==> self.text_spec() == Some(s@), r is Err ==> self.text_spec() is None,
    { unimplemented!() }
}
pub uninterp spec fn trim_spec(s: Seq<char>) -> Seq<char>;
pub assume_specification<'a> [str::trim](s: &'a str) -> (r: &'a str)
    ensures r@ == trim_spec(s@);

pub uninterp spec fn parse_date_spec(s: Seq<char>) -> Option<DateTime<Utc>>;
#[verifier::external_body]
pub fn parse_http_date(date: &str) -> (r: Option<DateTime<Utc>>) ensures r == parse_date_spec(date@) { unimplemented!() }

// ===== HTTP response side: a response / builder is abstracted to status, validators and body source
#[derive(Clone, Copy)] pub struct StatusCode { pub code: u16 }
impl StatusCode {
    pub const OK: StatusCode = StatusCode { code: 200 };
    pub const NOT_MODIFIED: StatusCode = StatusCode { code: 304 };
    pub const BAD_REQUEST: StatusCode = StatusCode { code: 400 };
    pub const NOT_FOUND: StatusCode = StatusCode { code: 404 };
    pub const METHOD_NOT_ALLOWED: StatusCode = StatusCode { code: 405 };
    pub const INTERNAL_SERVER_ERROR: StatusCode = StatusCode { code: 500 };
    pub const SERVICE_UNAVAILABLE: StatusCode = StatusCode { code: 503 };
}
pub enum Body { Empty, Text, Snapshot(Arc<PayloadSnapshot>) }
#[verifier::external_body] pub struct ContentType { _opaque: () }
#[verifier::external_body] pub struct Response { _opaque: () }
#[verifier::external_body] pub struct ResponseBuilder { _opaque: () }
impl Response {
    pub uninterp spec fn status_spec(&self) -> u16;
    pub uninterp spec fn etag_spec(&self) -> Option<Seq<char>>;
    pub uninterp spec fn last_modified_spec(&self) -> Option<DateTime<Utc>>;
    pub uninterp spec fn body_spec(&self) -> Body;

    #[verifier::external_body]
    pub fn initial_validation(api: bool) -> (r: Response) ensures r.status_spec() == 503, r.body_spec() is Text { unimplemented!() }
    #[verifier::external_body]
    pub fn bad_request<M>(api: bool, message: M) -> (r: Response) ensures r.status_spec() == 400, r.body_spec() is Text { unimplemented!() }
    #[verifier::external_body]
    pub fn not_found(api: bool) -> (r: Response) ensures r.status_spec() == 404, r.body_spec() is Text { unimplemented!() }
    #[verifier::external_body]
    pub fn method_not_allowed(api: bool) -> (r: Response) ensures r.status_spec() == 405, r.body_spec() is Text { unimplemented!() }
    #[verifier::external_body]
    pub fn internal_server_error(api: bool) -> (r: Response) ensures r.status_spec() == 500, r.body_spec() is Text { unimplemented!() }
    #[verifier::external_body]
    pub fn error<M>(api: bool, status: StatusCode, message: M) -> (r: Response) ensures r.status_spec() == status.code, r.body_spec() is Text { unimplemented!() }
}
impl ResponseBuilder {
    pub uninterp spec fn status_spec(&self) -> u16;
    pub uninterp spec fn etag_spec(&self) -> Option<Seq<char>>;
    pub uninterp spec fn last_modified_spec(&self) -> Option<DateTime<Utc>>;

    #[verifier::external_body]
    pub fn new(status: StatusCode) -> (r: ResponseBuilder)
        ensures r.status_spec() == status.code, r.etag_spec() is None, r.last_modified_spec() is None { unimplemented!() }
    #[verifier::external_body]
    pub fn ok() -> (r: ResponseBuilder)
        ensures r.status_spec() == 200, r.etag_spec() is None, r.last_modified_spec() is None { unimplemented!() }
    #[verifier::external_body]
    pub fn content_type(self, content_type: ContentType) -> (r: ResponseBuilder)
        ensures r.status_spec() == self.status_spec(), r.etag_spec() == self.etag_spec(), r.last_modified_spec() == self.last_modified_spec() { unimplemented!() }
    #[verifier::external_body]
    pub fn etag(self, etag: &str) -> (r: ResponseBuilder)
        ensures r.status_spec() == self.status_spec(), r.etag_spec() == Some(etag@), r.last_modified_spec() == self.last_modified_spec() { unimplemented!() }
    #[verifier::external_body]
    pub fn last_modified(self, last_modified: DateTime<Utc>) -> (r: ResponseBuilder)
        ensures r.status_spec() == self.status_spec(), r.etag_spec() == self.etag_spec(), r.last_modified_spec() == Some(last_modified) { unimplemented!() }
    #[verifier::external_body]
    pub fn empty(self) -> (r: Response)
        ensures r.status_spec() == self.status_spec(), r.etag_spec() == self.etag_spec(),
                r.last_modified_spec() == self.last_modified_spec(), r.body_spec() is Empty { unimplemented!() }
    #[verifier::external_body]
    pub fn stream(self, body: SnapshotStream) -> (r: Response)
        ensures r.status_spec() == self.status_spec(), r.etag_spec() == self.etag_spec(),
                r.last_modified_spec() == self.last_modified_spec(), r.body_spec() == Body::Snapshot(body.snapshot_spec()) { unimplemented!() }
}

// ===== output side (output.rs): rendering of a snapshot in a format
#[verifier::external_body] pub struct Output { _opaque: () }
#[verifier::external_body] pub struct QueryError { _opaque: () }
#[verifier::external_body] pub struct OutputStream { _opaque: () }
#[verifier::external_body] pub struct SnapshotStream { _opaque: () }
impl OutputStream { pub uninterp spec fn snapshot_spec(&self) -> Arc<PayloadSnapshot>; }
impl SnapshotStream { pub uninterp spec fn snapshot_spec(&self) -> Arc<PayloadSnapshot>; }
impl Clone for Output { #[verifier::external_body] fn clone(&self) -> Output { unimplemented!() } }
impl Output {
    #[verifier::external_body] pub fn update_from_query(&mut self, query: Option<&str>) -> Result<(), QueryError> { unimplemented!() }
    // streams exactly the given snapshot
    #[verifier::external_body]
    pub fn stream(self, snapshot: Arc<PayloadSnapshot>, metrics: Arc<Metrics>, format: OutputFormat) -> (r: OutputStream)
        ensures r.snapshot_spec() == snapshot { unimplemented!() }
}
#[verifier::external_body]
pub fn stream_iter(s: OutputStream) -> (r: SnapshotStream) ensures r.snapshot_spec() == s.snapshot_spec() { unimplemented!() }
impl OutputFormat {
    #[verifier::external_body] fn from_path(path: &str) -> Option<OutputFormat> { unimplemented!() }
    #[verifier::external_body] fn content_type(self) -> ContentType { unimplemented!() }
}

// R2a: format!("..{a}..") keeps only the dependence on the literal and the argument values
pub uninterp spec fn rendered<T>(fmt: Seq<char>, args: T) -> Seq<char>;
#[verifier::external_body]
pub fn fmt_named<T>(fmt: &str, args: T) -> (r: String) ensures r@ == rendered(fmt@, args) { unimplemented!() }

// assumed facts made available to the solver; they live in submodules (with the symbols they mention)
// because a module-level `broadcast use` may not name a fact of its own module
pub mod clone_axiom {
    use vstd::prelude::*;
    use std::sync::Arc;
    // Arc::clone returns an equal Arc (as in units/history_locks/env.rs)
    #[verifier::external_body]
    pub broadcast proof fn axiom_arc_cloned<T>(a: Arc<T>, b: Arc<T>)
        ensures #[trigger] cloned(a, b) ==> a == b
    {}
}
pub mod etags {
    use vstd::prelude::*;
    use vstd::std_specs::iter::IteratorSpec;
    // the entity tags listed in an If-None-Match value (response.rs EtagsIter: str slicing, not verifiable here;
    // declared instead of extracted)
    pub struct EtagsIter<'a>(pub &'a str);
    pub uninterp spec fn etags_spec(value: Seq<char>) -> Seq<Seq<char>>;
    pub uninterp spec fn etags_iter_remaining<'a>(it: &EtagsIter<'a>) -> Seq<&'a str>;
    pub uninterp spec fn etags_iter_count(it: &EtagsIter) -> nat;
    impl<'a> Iterator for EtagsIter<'a> {
        type Item = &'a str;
        #[verifier::external_body] fn next(&mut self) -> Option<&'a str> { unimplemented!() }
    }
    impl<'a> vstd::std_specs::iter::IteratorSpecImpl for EtagsIter<'a> {
        open spec fn obeys_prophetic_iter_laws(&self) -> bool { true }
        #[verifier::prophetic]
        open spec fn remaining(&self) -> Seq<&'a str> { etags_iter_remaining(self) }
        open spec fn decrease(&self) -> Option<nat> { Some(etags_iter_count(self)) }
        #[verifier::prophetic]
        open spec fn will_return_none(&self) -> bool { true }
        open spec fn peek(&self, index: int) -> Option<&'a str> { None }
    }
    // a fresh EtagsIter yields the tags of its text (response.rs test etags_iter samples it)
    #[verifier::external_body]
    pub broadcast proof fn axiom_etags_iter<'a>(it: EtagsIter<'a>)
        ensures #[trigger] etags_iter_remaining(&it).len() == etags_spec(it.0@).len(),
            forall|i: int| 0 <= i < etags_spec(it.0@).len() ==> (#[trigger] etags_iter_remaining(&it)[i])@ == etags_spec(it.0@)[i],
    {}
}
pub use etags::*;
broadcast use {clone_axiom::axiom_arc_cloned, etags::axiom_etags_iter};
