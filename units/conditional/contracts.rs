//@ fn PayloadHistory::current
//@ spec
    ensures res == self.current,
//@ fn PayloadHistory::session
//@ spec
    ensures res == self.session,
//@ fn PayloadHistory::session_and_serial
//@ spec
    ensures res == (self.session, self.cur()),
//@ fn PayloadHistory::metrics
//@ spec
    ensures res == self.metrics,
//@ fn PayloadHistory::created
//@ spec
    ensures res == self.created,
//@ fn Response::not_modified
//@ spec
    ensures res.status_spec() == 304, res.etag_spec() == Some(etag@), res.last_modified_spec() == Some(done),
            res.body_spec() is Empty,
//@ fn Response::maybe_not_modified
//@ spec
    ensures
        // C16: 304 is answered only if the request names the current entity tag (or "*") in
        // If-None-Match, or presents an If-Modified-Since date that is not before `done`
        res is Some ==> not_modified_cond(req, etag@, done),
        res matches Some(r) ==> r.status_spec() == 304 && r.etag_spec() == Some(etag@)
            && r.last_modified_spec() == Some(done) && r.body_spec() is Empty,
//@ afterinit 1
        let ghost all = iter_1.remaining();
//@ loop 1
            invariant
                all == req.headers_spec().values_spec("If-None-Match"@),
                iter_1.obeys_prophetic_iter_laws(), iter_1.decrease() is Some,
                iter_1.remaining().len() <= all.len(),
                iter_1.remaining() == all.skip(all.len() - iter_1.remaining().len()),
            decreases iter_1.decrease()->Some_0,
//@ loopvar 2 tit
//@ loop 2
                invariant
                    all == req.headers_spec().values_spec("If-None-Match"@),
                    // `value` is the trimmed text of one of the If-None-Match header values
                    exists|i: int| 0 <= i < all.len() && (#[trigger] all[i]).text_spec() is Some
                        && value@ == trim_spec(all[i].text_spec()->Some_0),
                    tit.seq().len() == etags_spec(value@).len(),
                    forall|i: int| 0 <= i < tit.seq().len() ==> (#[trigger] tit.seq()[i])@ == etags_spec(value@)[i],
                    iter_1.obeys_prophetic_iter_laws(), iter_1.decrease() is Some,
                    iter_1.remaining().len() <= all.len(),
                    iter_1.remaining() == all.skip(all.len() - iter_1.remaining().len()),
//@ fn State::handle_get_or_head
//@ spec
    ensures
        // C15: a data response (200) carries ETag, Last-Modified and body of ONE state of the history:
        // the ETag is the one of (session, serial) of the state whose data set is streamed
        (res is Ok && res->Ok_0.status_spec() == 200) ==>
            exists|h: PayloadHistory| #[trigger] history.held(h) && ({
                let r = res->Ok_0;
                h.current is Some && h.created is Some
                && r.etag_spec() == Some(etag_of(h.session, h.cur()))
                && r.last_modified_spec() == h.created
                && (r.body_spec() is Empty || r.body_spec() == Body::Snapshot(h.current->Some_0))
            }),
        // C16: 304 only on the validators of that same state
        (res is Ok && res->Ok_0.status_spec() == 304) ==>
            exists|h: PayloadHistory| #[trigger] history.held(h) && ({
                let r = res->Ok_0;
                h.current is Some && h.created is Some
                && r.etag_spec() == Some(etag_of(h.session, h.cur()))
                && not_modified_cond(&req, etag_of(h.session, h.cur()), h.created->Some_0)
            }),
        // C15: nothing else is answered: before the first validation completes (no data set, metrics or
        // creation time) the answer is 503 (or 400 for a bad query), never data
        res is Ok ==> (res->Ok_0.status_spec() == 200 || res->Ok_0.status_spec() == 304
            || res->Ok_0.status_spec() == 400 || res->Ok_0.status_spec() == 503),
//@ global
// the text of the ETag header for (session, serial)
spec fn etag_of(session: u64, serial: Serial) -> Seq<char> {
    rendered("\"{session:x}-{serial}\""@, (&session, &serial))
}

// C16, written from the property statement: the request's own validators match
spec fn not_modified_cond(req: &Request, etag: Seq<char>, done: DateTime<Utc>) -> bool {
    let inm = req.headers_spec().values_spec("If-None-Match"@);
    let ims = req.headers_spec().values_spec("If-Modified-Since"@);
    ||| exists|i: int| 0 <= i < inm.len() && (#[trigger] inm[i]).text_spec() is Some && ({
            let v = trim_spec(inm[i].text_spec()->Some_0);
            ||| v == "*"@
            ||| exists|k: int| 0 <= k < etags_spec(v).len() && trim_spec(#[trigger] etags_spec(v)[k]) == etag
        })
    ||| (ims.len() > 0 && ims[0].text_spec() is Some
            && parse_date_spec(ims[0].text_spec()->Some_0) is Some
            && parse_date_spec(ims[0].text_spec()->Some_0)->Some_0.t@ >= done.t@)
}

impl PayloadHistory {
    spec fn cur(&self) -> Serial {
        if self.deltas@.len() > 0 { self.deltas@[0].serial_spec() } else { Serial(0u32) }
    }
    spec fn chain(&self) -> bool {
        &&& self.deltas@.len() < 0x8000_0000
        &&& forall|i: int| 0 <= i < self.deltas@.len() ==>
                (#[trigger] self.deltas@[i]).serial_spec().0 == wadd(self.cur().0, -i)
    }
}
