// Environment of unit `store_status` (C23, status.bin). Everything here is ASSUMED.

// A genuine I/O failure (EIO, permissions, ...) happened; unrelated to crashes.
pub uninterp spec fn io_failure() -> bool;

// ---- data -------------------------------------------------------------------------
#[verifier::external_body] #[derive(Clone, Copy)] pub struct Time { _opaque: () }
impl Time {
    #[verifier::external_body]
    pub fn now() -> (r: Time) { unimplemented!() }
}
#[verifier::external_body] pub struct Metrics { _opaque: () }
impl Default for Metrics {
    #[verifier::external_body]
    fn default() -> Metrics { unimplemented!() }
}
#[verifier::external_body] pub struct Duration { _opaque: () }
#[verifier::external_body] pub struct SystemTime { _opaque: () }
impl Time {
    #[verifier::external_body]
    pub fn timestamp(&self) -> (r: i64) { unimplemented!() }
    #[verifier::external_body]
    pub fn utc(year: i32, month: u32, day: u32, hour: u32, min: u32, sec: u32) -> (r: Time) { unimplemented!() }
}
#[verifier::external_body] pub struct IoError { _opaque: () }
#[verifier::external_body] pub struct Path { _opaque: () }
pub struct PathBuf { pub p: Path }
impl PathBuf {
    #[verifier::external_body]
    pub fn join(&self, name: &str) -> (r: PathBuf) { unimplemented!() }
    #[verifier::external_body]
    pub fn as_path(&self) -> (r: &Path) ensures *r == self.p { unimplemented!() }
}
impl Clone for PathBuf {
    #[verifier::external_body]
    fn clone(&self) -> (r: PathBuf) ensures r == *self { unimplemented!() }
}
impl Path {
    #[verifier::external_body]
    pub fn exists(&self) -> (r: bool) { unimplemented!() }
    #[verifier::external_body]
    pub fn join(&self, name: &str) -> (r: PathBuf) { unimplemented!() }
}
impl std::ops::Deref for PathBuf {
    type Target = Path;
    #[verifier::external_body]
    fn deref(&self) -> (r: &Path) ensures *r == self.p { unimplemented!() }
}

// utils::binio::ParseError
#[verifier::external_body] pub struct ParseError { _opaque: () }
impl ParseError {
    pub uninterp spec fn is_fatal_spec(&self) -> bool;
    // bad formatting: never fatal
    #[verifier::external_body]
    pub fn format(err: FmtOpaque) -> (r: ParseError) ensures !r.is_fatal_spec() { unimplemented!() }
    #[verifier::external_body]
    pub fn is_fatal(&self) -> (r: bool) ensures r == self.is_fatal_spec() { unimplemented!() }
    // an unexpected EOF is never fatal
    #[verifier::external_body]
    pub fn is_eof(&self) -> (r: bool) ensures r ==> !self.is_fatal_spec() { unimplemented!() }
}
#[verifier::external_body] pub struct FmtOpaque { _opaque: () }
#[verifier::external_body]
pub fn fmt_opaque() -> (r: FmtOpaque) { unimplemented!() }

// ---- byte encodings of the primitives (utils::binio) -------------------------------
pub trait Encodable { spec fn enc(&self) -> Seq<u8>; }
impl Encodable for u8 { open spec fn enc(&self) -> Seq<u8> { seq![*self] } }
pub uninterp spec fn enc_time(t: Time) -> Seq<u8>;
impl Encodable for Time { open spec fn enc(&self) -> Seq<u8> { enc_time(*self) } }
// A timestamp is 8 octets (i64 seconds, big endian). NOT injective: Time has sub-second
// precision (Time::now()), the encoding keeps whole seconds only.
#[verifier::external_body]
pub proof fn axiom_enc_time()
    ensures
        forall|t: Time| (#[trigger] enc_time(t)).len() == 8,
{ unimplemented!() }

// ---- readers and writers; crash steps ------------------------------------------------
pub trait IoRead { spec fn remaining(&self) -> Seq<u8>; }
pub trait IoWrite {
    // everything written through this handle so far (for a file: its bytes)
    spec fn written(&self) -> Seq<u8>;
    // C23: `bytes` is a state the underlying file may be left in by a crash
    spec fn state_ok(&self, bytes: Seq<u8>) -> bool;
}
// A write either appends all the data or fails having appended some prefix of it.
pub open spec fn appended(old_w: Seq<u8>, new_w: Seq<u8>, data: Seq<u8>, ok: bool) -> bool {
    if ok { new_w == old_w + data }
    else { exists|n: int| 0 <= n <= data.len() && new_w == old_w + #[trigger] data.subrange(0, n) }
}
// Compose::compose = one write_all: ONE CRASH STEP. A kill during the step leaves the
// old bytes plus any prefix of the data: every such state must be acceptable.
pub trait Compose<W: IoWrite>: Encodable {
    fn compose(&self, target: &mut W) -> (r: Result<(), IoError>)
        requires
            forall|n: int| 0 <= n <= self.enc().len() ==>
                old(target).state_ok(old(target).written() + #[trigger] self.enc().subrange(0, n)),
        ensures
            appended(old(target).written(), final(target).written(), self.enc(), r is Ok),
            forall|b: Seq<u8>| final(target).state_ok(b) == old(target).state_ok(b);
}
impl<W: IoWrite> Compose<W> for u8 {
    #[verifier::external_body]
    fn compose(&self, target: &mut W) -> (r: Result<(), IoError>) { unimplemented!() }
}
impl<W: IoWrite> Compose<W> for Time {
    #[verifier::external_body]
    fn compose(&self, target: &mut W) -> (r: Result<(), IoError>) { unimplemented!() }
}
// Parse::parse: consumes exactly one encoding; an error is fatal only on a genuine I/O
// failure (unexpected EOF and bad formatting are not fatal); a complete encoding is accepted.
pub trait Parse<R: IoRead>: Sized + Encodable {
    fn parse(source: &mut R) -> (r: Result<Self, ParseError>)
        ensures
            r matches Ok(v) ==> old(source).remaining() == v.enc() + final(source).remaining(),
            r matches Err(e) ==> (e.is_fatal_spec() ==> io_failure()),
            r matches Err(e) ==> (!e.is_fatal_spec() ==>
                !exists|v: Self, rest: Seq<u8>| old(source).remaining() == #[trigger] (v.enc() + rest));
}
impl<R: IoRead> Parse<R> for u8 {
    #[verifier::external_body]
    fn parse(source: &mut R) -> (r: Result<u8, ParseError>) { unimplemented!() }
}
impl<R: IoRead> Parse<R> for Time {
    #[verifier::external_body]
    fn parse(source: &mut R) -> (r: Result<Time, ParseError>) { unimplemented!() }
}

// ---- status.bin ------------------------------------------------------------------------
// The complete encoding of a status with the given time: version octet 0, then the time.
pub open spec fn enc_status_bytes(t: Time) -> Seq<u8> { seq![0u8] + enc_time(t) }
// C23: the states Run::done can leave status.bin in at a kill: any prefix (including the
// empty file right after the truncating create, and the complete file) of a status encoding.
pub open spec fn status_state(b: Seq<u8>) -> bool {
    exists|t: Time, n: int| 0 <= n <= enc_status_bytes(t).len() && b == #[trigger] enc_status_bytes(t).subrange(0, n)
}
// What is on disk at the status path when Store::status looks (None: no file).
pub uninterp spec fn disk(p: Path) -> Option<Seq<u8>>;

// std::fs::File on status.bin
#[verifier::external_body] pub struct File { _opaque: () }
impl File {
    pub uninterp spec fn content(&self) -> Seq<u8>;
    pub uninterp spec fn pos(&self) -> int;
}
impl IoWrite for File {
    open spec fn written(&self) -> Seq<u8> { self.content() }
    open spec fn state_ok(&self, bytes: Seq<u8>) -> bool { status_state(bytes) }
}
impl IoRead for File {
    open spec fn remaining(&self) -> Seq<u8> { self.content().skip(self.pos()) }
}
// Opening for reading: by the file-system invariant the file is in a state a kill can leave.
#[verifier::external_body]
pub fn fatal_open_existing_file(path: &Path) -> (r: Result<Option<File>, Failed>)
    ensures
        r matches Ok(Some(f)) ==> f.pos() == 0 && disk(*path) == Some(f.content()) && status_state(f.content()),
        r matches Ok(None) ==> disk(*path) is None,
        r is Err ==> io_failure(),
{ unimplemented!() }
// Create-or-truncate: ONE CRASH STEP, after which the file is empty.
#[verifier::external_body]
pub fn fatal_create_file(path: &Path) -> (r: Result<File, Failed>)
    requires status_state(Seq::<u8>::empty()),
    ensures r matches Ok(f) ==> f.content() == Seq::<u8>::empty() && f.pos() == 0,
{ unimplemented!() }

// ---- further primitives of utils::fatal / std::fs on status.bin (same step discipline) --------
// An in-memory buffer: every state of it is fine.
impl IoWrite for Vec<u8> {
    open spec fn written(&self) -> Seq<u8> { self@ }
    open spec fn state_ok(&self, bytes: Seq<u8>) -> bool { true }
}
// fs::write = create-or-truncate followed by write_all: the file may be left empty or with
// any prefix of the contents.
#[verifier::external_body]
pub fn fatal_write_file(path: &Path, contents: &[u8]) -> (r: Result<(), Failed>)
    requires forall|n: int| 0 <= n <= contents@.len() ==> status_state(#[trigger] contents@.subrange(0, n)),
{ unimplemented!() }
#[verifier::external_body]
pub fn fs_write(path: &Path, contents: &[u8]) -> (r: Result<(), IoError>)
    requires forall|n: int| 0 <= n <= contents@.len() ==> status_state(#[trigger] contents@.subrange(0, n)),
{ unimplemented!() }
// Renaming some other file over status.bin: its content must be a status_state.
pub uninterp spec fn file_at(p: Path) -> Seq<u8>;
#[verifier::external_body]
pub fn fatal_rename(source: &Path, target: &Path) -> (r: Result<(), Failed>)
    requires status_state(file_at(*source)),
{ unimplemented!() }
#[verifier::external_body]
pub fn fs_rename(source: &Path, target: &Path) -> (r: Result<(), IoError>)
    requires status_state(file_at(*source)),
{ unimplemented!() }
// Removing status.bin leaves "no file", which Store::status reads as Ok(None).
#[verifier::external_body]
pub fn fatal_remove_file(path: &Path) -> (r: Result<(), Failed>) { unimplemented!() }
#[verifier::external_body]
pub fn fs_remove_file(path: &Path) -> (r: Result<(), IoError>) { unimplemented!() }
#[verifier::external_body]
pub fn fatal_open_file(path: &Path) -> (r: Result<File, Failed>)
    ensures
        r matches Ok(f) ==> f.pos() == 0 && disk(*path) == Some(f.content()) && status_state(f.content()),
{ unimplemented!() }
#[derive(Structural, PartialEq, Eq)]
pub enum ErrorKind { NotFound, AlreadyExists, PermissionDenied, UnexpectedEof, Interrupted, Other }
impl IoError {
    pub uninterp spec fn kind_spec(&self) -> ErrorKind;
    #[verifier::external_body]
    pub fn kind(&self) -> (r: ErrorKind) ensures r == self.kind_spec() { unimplemented!() }
}
// std::fs::Metadata of status.bin: its length is the length of the ghost content.
#[verifier::external_body] pub struct Metadata { _opaque: () }
impl Metadata {
    pub uninterp spec fn len_spec(&self) -> nat;
    #[verifier::external_body]
    pub fn len(&self) -> (r: u64) ensures r as nat == self.len_spec() { unimplemented!() }
    #[verifier::external_body]
    pub fn is_file(&self) -> (r: bool) { unimplemented!() }
    #[verifier::external_body]
    pub fn is_dir(&self) -> (r: bool) { unimplemented!() }
}
// fs::metadata / Path::metadata: what is on disk at the path
#[verifier::external_body]
pub fn fs_metadata(path: &Path) -> (r: Result<Metadata, IoError>)
    ensures
        r matches Ok(m) ==> (disk(*path) matches Some(c) && m.len_spec() == c.len() && status_state(c)),
        r matches Err(e) ==> (e.kind_spec() == ErrorKind::NotFound ==> disk(*path) is None),
        r matches Err(e) ==> (e.kind_spec() != ErrorKind::NotFound ==> io_failure()),
{ unimplemented!() }
impl Path {
    #[verifier::external_body]
    pub fn metadata(&self) -> (r: Result<Metadata, IoError>)
        ensures
            r matches Ok(m) ==> (disk(*self) matches Some(c) && m.len_spec() == c.len() && status_state(c)),
            r matches Err(e) ==> (e.kind_spec() == ErrorKind::NotFound ==> disk(*self) is None),
            r matches Err(e) ==> (e.kind_spec() != ErrorKind::NotFound ==> io_failure()),
    { unimplemented!() }
}
impl File {
    // metadata of the open file: an error is a genuine I/O failure
    #[verifier::external_body]
    pub fn metadata(&self) -> (r: Result<Metadata, IoError>)
        ensures
            r matches Ok(m) ==> m.len_spec() == self.content().len(),
            r is Err ==> io_failure(),
    { unimplemented!() }
    // writes are modelled as appends: repositioning is only admitted on an empty file
    #[verifier::external_body]
    pub fn seek(&mut self, to: SeekFrom) -> (r: Result<u64, IoError>)
        requires old(self).content().len() == 0,
        ensures
            final(self).content() == old(self).content(),
            r is Ok ==> (to matches SeekFrom::Start(n) ==> final(self).pos() == n as int),
            r is Err ==> final(self).pos() == old(self).pos(),
    { unimplemented!() }
    // std::fs::File constructors used directly (same steps as the utils::fatal wrappers)
    #[verifier::external_body]
    pub fn create(path: &Path) -> (r: Result<File, IoError>)
        requires status_state(Seq::<u8>::empty()),
        ensures r matches Ok(f) ==> f.content() == Seq::<u8>::empty() && f.pos() == 0,
    { unimplemented!() }
    // fails when the file exists - which it does after the first completed run: not an I/O failure
    #[verifier::external_body]
    pub fn create_new(path: &Path) -> (r: Result<File, IoError>)
        requires status_state(Seq::<u8>::empty()),
        ensures
            r matches Ok(f) ==> f.content() == Seq::<u8>::empty() && f.pos() == 0 && disk(*path) is None,
            disk(*path) is Some ==> r is Err,
    { unimplemented!() }
    #[verifier::external_body]
    pub fn open(path: &Path) -> (r: Result<File, IoError>)
        ensures
            r matches Ok(f) ==> f.pos() == 0 && disk(*path) == Some(f.content()) && status_state(f.content()),
            r matches Err(e) ==> (e.kind_spec() == ErrorKind::NotFound ==> disk(*path) is None),
            r matches Err(e) ==> (e.kind_spec() != ErrorKind::NotFound ==> io_failure()),
    { unimplemented!() }
    #[verifier::external_body]
    pub fn sync_all(&self) -> (r: Result<(), IoError>) { unimplemented!() }
    #[verifier::external_body]
    pub fn flush(&mut self) -> (r: Result<(), IoError>)
        ensures final(self).content() == old(self).content(), final(self).pos() == old(self).pos(),
    { unimplemented!() }
    // one write_all on the status file: ONE CRASH STEP
    #[verifier::external_body]
    pub fn write_all(&mut self, buf: &[u8]) -> (r: Result<(), IoError>)
        requires forall|n: int| 0 <= n <= buf@.len() ==> status_state(old(self).content() + #[trigger] buf@.subrange(0, n)),
        ensures appended(old(self).content(), final(self).content(), buf@, r is Ok),
    { unimplemented!() }
}
pub assume_specification<T: core::marker::Destruct> [std::mem::drop] (_0: T);
// ---- std functions without a vstd specification (ASSUMED: their std definitions).
// Declared so that a refactoring that starts using one of them is verified, not rejected.
pub assume_specification<T: Ord + core::marker::Destruct> [std::cmp::min] (a: T, b: T) -> (r: T)
    ensures <T as vstd::std_specs::cmp::OrdSpec>::obeys_cmp_spec() ==> r == (if vstd::std_specs::cmp::OrdSpec::cmp_spec(&b, &a) == std::cmp::Ordering::Less { b } else { a }),
;
pub assume_specification<T: Ord + core::marker::Destruct> [std::cmp::max] (a: T, b: T) -> (r: T)
    ensures <T as vstd::std_specs::cmp::OrdSpec>::obeys_cmp_spec() ==> r == (if vstd::std_specs::cmp::OrdSpec::cmp_spec(&b, &a) == std::cmp::Ordering::Less { a } else { b }),
;
pub assume_specification [std::cmp::Ordering::is_lt] (o: std::cmp::Ordering) -> (r: bool)
    ensures r == (o == std::cmp::Ordering::Less);
pub assume_specification [std::cmp::Ordering::is_gt] (o: std::cmp::Ordering) -> (r: bool)
    ensures r == (o == std::cmp::Ordering::Greater);
pub assume_specification [std::cmp::Ordering::is_le] (o: std::cmp::Ordering) -> (r: bool)
    ensures r == (o != std::cmp::Ordering::Greater);
pub assume_specification [std::cmp::Ordering::is_ge] (o: std::cmp::Ordering) -> (r: bool)
    ensures r == (o != std::cmp::Ordering::Less);
pub assume_specification<T: core::marker::Destruct> [bool::then_some] (b: bool, t: T) -> (r: Option<T>)
    ensures r == (if b { Some(t) } else { None::<T> });
pub assume_specification<T: core::marker::Destruct> [std::option::Option::<T>::xor] (a: Option<T>, b: Option<T>) -> (r: Option<T>)
    ensures r == (match (a, b) { (Some(x), None) => Some(x), (None, Some(y)) => Some(y), _ => None::<T> });
pub assume_specification<'a, T: Copy> [std::option::Option::<&T>::copied] (o: Option<&'a T>) -> (r: Option<T>)
    ensures r == (match o { Some(x) => Some(*x), None => None::<T> });
pub assume_specification<T: core::marker::Destruct> [std::option::Option::<T>::or] (a: Option<T>, b: Option<T>) -> (r: Option<T>)
    ensures r == (if a is Some { a } else { b });
pub assume_specification<T: core::marker::Destruct, U: core::marker::Destruct> [std::option::Option::<T>::and] (a: Option<T>, b: Option<U>) -> (r: Option<U>)
    ensures r == (if a is Some { b } else { None::<U> });
pub assume_specification<T: core::marker::Destruct, U: core::marker::Destruct> [std::option::Option::<T>::zip] (a: Option<T>, b: Option<U>) -> (r: Option<(T, U)>)
    ensures r == (match (a, b) { (Some(x), Some(y)) => Some((x, y)), _ => None::<(T, U)> });
pub assume_specification<T, F: FnOnce(T) -> bool + core::marker::Destruct> [std::option::Option::<T>::is_some_and] (o: Option<T>, f: F) -> (r: bool)
    requires o matches Some(x) ==> f.requires((x,)),
    ensures match o { Some(x) => f.ensures((x,), r), None => !r };
pub assume_specification<T, F: FnOnce(T) -> bool + core::marker::Destruct> [std::option::Option::<T>::is_none_or] (o: Option<T>, f: F) -> (r: bool)
    requires o matches Some(x) ==> f.requires((x,)),
    ensures match o { Some(x) => f.ensures((x,), r), None => r };
pub assume_specification<T: core::marker::Destruct, P: FnOnce(&T) -> bool + core::marker::Destruct> [std::option::Option::<T>::filter] (o: Option<T>, p: P) -> (r: Option<T>)
    requires o matches Some(x) ==> p.requires((&x,)),
    ensures match o { Some(x) => (r == Some(x) && p.ensures((&x,), true)) || (r is None && p.ensures((&x,), false)), None => r is None },
        // the predicate returned SOME boolean for the element, and the result follows it
        o is Some ==> exists|__b: bool| p.ensures((&o->Some_0,), __b) && r == (if __b { o } else { None::<T> });
pub assume_specification<T: core::marker::Destruct, F: FnOnce() -> Option<T> + core::marker::Destruct> [std::option::Option::<T>::or_else] (o: Option<T>, f: F) -> (r: Option<T>)
    requires o is None ==> f.requires(()),
    ensures match o { Some(x) => r == o, None => f.ensures((), r) };
pub assume_specification<T, U: core::marker::Destruct, F: FnOnce(T) -> U + core::marker::Destruct> [std::option::Option::<T>::map_or] (o: Option<T>, d: U, f: F) -> (r: U)
    requires o matches Some(x) ==> f.requires((x,)),
    ensures match o { Some(x) => f.ensures((x,), r), None => r == d };
pub assume_specification<T, U, D: FnOnce() -> U + core::marker::Destruct, F: FnOnce(T) -> U + core::marker::Destruct> [std::option::Option::<T>::map_or_else] (o: Option<T>, d: D, f: F) -> (r: U)
    requires o matches Some(x) ==> f.requires((x,)), o is None ==> d.requires(()),
    ensures match o { Some(x) => f.ensures((x,), r), None => d.ensures((), r) };
pub assume_specification<T: core::marker::Destruct, E: core::marker::Destruct> [std::result::Result::<T, E>::unwrap_or] (x: Result<T, E>, d: T) -> (r: T)
    ensures r == (match x { Ok(v) => v, Err(_) => d });
pub assume_specification<T, E: core::marker::Destruct, F: core::marker::Destruct> [std::result::Result::<T, E>::or] (a: Result<T, E>, b: Result<T, F>) -> (r: Result<T, F>)
    ensures match a { Ok(v) => r == Ok::<T, F>(v), Err(_) => r == b };
pub assume_specification<T, E, U, F: FnOnce(T) -> Result<U, E> + core::marker::Destruct> [std::result::Result::<T, E>::and_then] (x: Result<T, E>, f: F) -> (r: Result<U, E>)
    requires x matches Ok(v) ==> f.requires((v,)),
    ensures match x { Ok(v) => f.ensures((v,), r), Err(e) => r == Err::<U, E>(e) };
pub assume_specification<T, E: core::marker::Destruct, F: FnOnce(T) -> bool + core::marker::Destruct> [std::result::Result::<T, E>::is_ok_and] (x: Result<T, E>, f: F) -> (r: bool)
    requires x matches Ok(v) ==> f.requires((v,)),
    ensures match x { Ok(v) => f.ensures((v,), r), Err(_) => !r };
pub assume_specification<T, E, F: FnOnce(E) -> T + core::marker::Destruct> [std::result::Result::<T, E>::unwrap_or_else] (x: Result<T, E>, f: F) -> (r: T)
    requires x matches Err(e) ==> f.requires((e,)),
    ensures match x { Ok(v) => r == v, Err(e) => f.ensures((e,), r) };
pub assume_specification<T> [std::mem::replace] (dest: &mut T, src: T) -> (r: T)
    ensures r == *old(dest), *final(dest) == src;
pub assume_specification<T: Default + core::marker::Destruct, E: core::marker::Destruct> [std::result::Result::<T, E>::unwrap_or_default] (x: Result<T, E>) -> (r: T)
    ensures x matches Ok(v) ==> r == v;
pub assume_specification<T, E, U: core::marker::Destruct, F: FnOnce(T) -> U + core::marker::Destruct> [std::result::Result::<T, E>::map_or] (x: Result<T, E>, d: U, f: F) -> (r: U)
    requires x matches Ok(v) ==> f.requires((v,)),
    ensures match x { Ok(v) => f.ensures((v,), r), Err(_) => r == d };
pub assume_specification [<std::cmp::Ordering as PartialEq>::eq] (a: &std::cmp::Ordering, b: &std::cmp::Ordering) -> (r: bool)
    ensures r == (*a == *b);
pub enum SeekFrom { Start(u64), End(i64), Current(i64) }
