// Environment of unit `store_status` (C23, status.bin). Everything here is ASSUMED.

// A genuine I/O failure (EIO, permissions, ...) happened; unrelated to crashes.
pub uninterp spec fn io_failure() -> bool;

// ---- data -------------------------------------------------------------------------
#[verifier::external_body] #[derive(Clone, Copy)] pub struct Time { _opaque: () }
impl Time {
    #[verifier::external_body]
    pub fn now() -> (r: Time) { unimplemented!() }
}
#[verifier::external_body] pub struct Metrics { _opaque: () }
#[verifier::external_body] pub struct IoError { _opaque: () }
#[verifier::external_body] pub struct Path { _opaque: () }
pub struct PathBuf { pub p: Path }
impl std::ops::Deref for PathBuf {
    type Target = Path;
    #[verifier::external_body]
    fn deref(&self) -> (r: &Path) ensures *r == self.p { unimplemented!() }
}

// utils::binio::ParseError
#[verifier::external_body] pub struct ParseError { _opaque: () }
impl ParseError {
    pub uninterp spec fn is_fatal_spec(&self) -> bool;
    // bad formatting: never fatal
    #[verifier::external_body]
    pub fn format(err: FmtOpaque) -> (r: ParseError) ensures !r.is_fatal_spec() { unimplemented!() }
    #[verifier::external_body]
    pub fn is_fatal(&self) -> (r: bool) ensures r == self.is_fatal_spec() { unimplemented!() }
}
#[verifier::external_body] pub struct FmtOpaque { _opaque: () }
#[verifier::external_body]
pub fn fmt_opaque() -> (r: FmtOpaque) { unimplemented!() }

// ---- byte encodings of the primitives (utils::binio) -------------------------------
pub trait Encodable { spec fn enc(&self) -> Seq<u8>; }
impl Encodable for u8 { open spec fn enc(&self) -> Seq<u8> { seq![*self] } }
pub uninterp spec fn enc_time(t: Time) -> Seq<u8>;
impl Encodable for Time { open spec fn enc(&self) -> Seq<u8> { enc_time(*self) } }
// A timestamp is 8 octets (i64, big endian) and determines the time.
#[verifier::external_body]
pub proof fn axiom_enc_time()
    ensures
        forall|t: Time| (#[trigger] enc_time(t)).len() == 8,
        forall|a: Time, b: Time| #[trigger] enc_time(a) == #[trigger] enc_time(b) ==> a == b,
{ unimplemented!() }

// ---- readers and writers; crash steps ------------------------------------------------
pub trait IoRead { spec fn remaining(&self) -> Seq<u8>; }
pub trait IoWrite {
    // everything written through this handle so far (for a file: its bytes)
    spec fn written(&self) -> Seq<u8>;
    // C23: `bytes` is a state the underlying file may be left in by a crash
    spec fn state_ok(&self, bytes: Seq<u8>) -> bool;
}
// A write either appends all the data or fails having appended some prefix of it.
pub open spec fn appended(old_w: Seq<u8>, new_w: Seq<u8>, data: Seq<u8>, ok: bool) -> bool {
    if ok { new_w == old_w + data }
    else { exists|n: int| 0 <= n <= data.len() && new_w == old_w + #[trigger] data.subrange(0, n) }
}
// Compose::compose = one write_all: ONE CRASH STEP. A kill during the step leaves the
// old bytes plus any prefix of the data: every such state must be acceptable.
pub trait Compose<W: IoWrite>: Encodable {
    fn compose(&self, target: &mut W) -> (r: Result<(), IoError>)
        requires
            forall|n: int| 0 <= n <= self.enc().len() ==>
                old(target).state_ok(old(target).written() + #[trigger] self.enc().subrange(0, n)),
        ensures
            appended(old(target).written(), final(target).written(), self.enc(), r is Ok),
            forall|b: Seq<u8>| final(target).state_ok(b) == old(target).state_ok(b);
}
impl<W: IoWrite> Compose<W> for u8 {
    #[verifier::external_body]
    fn compose(&self, target: &mut W) -> (r: Result<(), IoError>) { unimplemented!() }
}
impl<W: IoWrite> Compose<W> for Time {
    #[verifier::external_body]
    fn compose(&self, target: &mut W) -> (r: Result<(), IoError>) { unimplemented!() }
}
// Parse::parse: consumes exactly one encoding; an error is fatal only on a genuine I/O
// failure (unexpected EOF and bad formatting are not fatal); a complete encoding is accepted.
pub trait Parse<R: IoRead>: Sized + Encodable {
    fn parse(source: &mut R) -> (r: Result<Self, ParseError>)
        ensures
            r matches Ok(v) ==> old(source).remaining() == v.enc() + final(source).remaining(),
            r matches Err(e) ==> (e.is_fatal_spec() ==> io_failure()),
            r matches Err(e) ==> (!e.is_fatal_spec() ==>
                !exists|v: Self, rest: Seq<u8>| old(source).remaining() == #[trigger] (v.enc() + rest));
}
impl<R: IoRead> Parse<R> for u8 {
    #[verifier::external_body]
    fn parse(source: &mut R) -> (r: Result<u8, ParseError>) { unimplemented!() }
}
impl<R: IoRead> Parse<R> for Time {
    #[verifier::external_body]
    fn parse(source: &mut R) -> (r: Result<Time, ParseError>) { unimplemented!() }
}

// ---- status.bin ------------------------------------------------------------------------
// The complete encoding of a status with the given time: version octet 0, then the time.
pub open spec fn enc_status_bytes(t: Time) -> Seq<u8> { seq![0u8] + enc_time(t) }
// C23: the states Run::done can leave status.bin in at a kill: any prefix (including the
// empty file right after the truncating create, and the complete file) of a status encoding.
pub open spec fn status_state(b: Seq<u8>) -> bool {
    exists|t: Time, n: int| 0 <= n <= enc_status_bytes(t).len() && b == #[trigger] enc_status_bytes(t).subrange(0, n)
}
// What is on disk at the status path when Store::status looks (None: no file).
pub uninterp spec fn disk(p: Path) -> Option<Seq<u8>>;

// std::fs::File on status.bin
#[verifier::external_body] pub struct File { _opaque: () }
impl File {
    pub uninterp spec fn content(&self) -> Seq<u8>;
    pub uninterp spec fn pos(&self) -> int;
}
impl IoWrite for File {
    open spec fn written(&self) -> Seq<u8> { self.content() }
    open spec fn state_ok(&self, bytes: Seq<u8>) -> bool { status_state(bytes) }
}
impl IoRead for File {
    open spec fn remaining(&self) -> Seq<u8> { self.content().skip(self.pos()) }
}
// Opening for reading: by the file-system invariant the file is in a state a kill can leave.
#[verifier::external_body]
pub fn fatal_open_existing_file(path: &Path) -> (r: Result<Option<File>, Failed>)
    ensures
        r matches Ok(Some(f)) ==> f.pos() == 0 && disk(*path) == Some(f.content()) && status_state(f.content()),
        r matches Ok(None) ==> disk(*path) is None,
        r is Err ==> io_failure(),
{ unimplemented!() }
// Create-or-truncate: ONE CRASH STEP, after which the file is empty.
#[verifier::external_body]
pub fn fatal_create_file(path: &Path) -> (r: Result<File, Failed>)
    requires status_state(Seq::<u8>::empty()),
    ensures r matches Ok(f) ==> f.content() == Seq::<u8>::empty() && f.pos() == 0,
{ unimplemented!() }
