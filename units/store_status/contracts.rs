//@ fn Store::status
//@ spec
    ensures
        // C23: whatever state a kill left status.bin in, the next command's status query works
        // ('vrps --update-after' keeps working) unless there is a genuine I/O failure
        !io_failure() ==> res is Ok,
        // C23: a status that is reported was completely written (the previous or the new one)
        res matches Ok(Some(s)) ==> disk(self.status_path_spec()) == Some(enc_status_bytes(s.last_update)),
        // an absent status is reported only for an absent or incompletely written file
        res matches Ok(None) ==> (disk(self.status_path_spec()) matches Some(c) ==> c.len() < 9),
//@ entry
    proof { axiom_enc_time(); lemma_status_complete(); lemma_skip0(); }
//@ fn Run::done
//@ spec
    // C23: every step (truncating create, each write) leaves status.bin in a status_state:
    // call-site obligations of fatal_create_file / compose. No postcondition of its own.
//@ entry
    proof { axiom_enc_time(); lemma_status_prefix(); }
//@ fn StoredStatus::new
//@ spec
    ensures res.last_update == last_update,
//@ fn StoredStatus::read
//@ spec
    ensures
        res matches Ok(s) ==> old(reader).remaining() == enc_status_bytes(s.last_update) + final(reader).remaining(),
        res matches Err(e) ==> (e.is_fatal_spec() ==> io_failure()),
        // a non-fatal error means the bytes do not start with a complete status encoding
        res matches Err(e) ==> (!e.is_fatal_spec() ==>
            !exists|t: Time, rest: Seq<u8>| old(reader).remaining() == #[trigger] (enc_status_bytes(t) + rest)),
//@ fn StoredStatus::read
//@ entry
    proof { axiom_enc_time(); lemma_status_split(); }
//@ fn StoredStatus::write
//@ entry
    proof { axiom_enc_time(); lemma_status_split(); lemma_status_write(self.last_update); }
//@ spec
    requires
        // C23: every prefix of the encoding, appended to what the file holds, is an acceptable crash state
        forall|n: int| 0 <= n <= enc_status_bytes(self.last_update).len() ==>
            old(writer).state_ok(old(writer).written() + #[trigger] enc_status_bytes(self.last_update).subrange(0, n)),
    ensures
        appended(old(writer).written(), final(writer).written(), enc_status_bytes(self.last_update), res is Ok),
//@ global
impl Store {
    spec fn status_path_spec(&self) -> Path { status_path_of(self.path.p) }
    #[verifier::external_body]
    fn status_path(&self) -> (r: PathBuf) ensures r.p == self.status_path_spec() { unimplemented!() }
}
uninterp spec fn status_path_of(base: Path) -> Path;

// Every prefix of a status encoding is a status_state (by definition); stated for the empty file.
proof fn lemma_status_prefix()
    ensures
        status_state(Seq::<u8>::empty()),
        forall|t: Time, n: int| 0 <= n <= enc_status_bytes(t).len() ==>
            status_state(Seq::<u8>::empty() + #[trigger] enc_status_bytes(t).subrange(0, n)),
{
    let t: Time = arbitrary();
    assert(Seq::<u8>::empty() =~= enc_status_bytes(t).subrange(0, 0));
    assert forall|t: Time, n: int| 0 <= n <= enc_status_bytes(t).len() implies
        status_state(Seq::<u8>::empty() + #[trigger] enc_status_bytes(t).subrange(0, n)) by {
        assert(Seq::<u8>::empty() + enc_status_bytes(t).subrange(0, n) =~= enc_status_bytes(t).subrange(0, n));
    }
}

proof fn lemma_skip0()
    ensures forall|s: Seq<u8>| #[trigger] s.skip(0) == s,
{
    assert forall|s: Seq<u8>| #[trigger] s.skip(0) == s by { assert(s.skip(0) =~= s); }
}

// A status_state that starts with a complete encoding is exactly that encoding.
proof fn lemma_status_complete()
    ensures
        forall|t: Time, rest: Seq<u8>| status_state(#[trigger] (enc_status_bytes(t) + rest))
            ==> enc_status_bytes(t) + rest == enc_status_bytes(t),
        forall|c: Seq<u8>| #[trigger] status_state(c) ==> c.len() <= 9,
        forall|t: Time, rest: Seq<u8>| (#[trigger] (enc_status_bytes(t) + rest)).len() >= 9,
        // a status_state of full length is a complete encoding
        forall|c: Seq<u8>| #[trigger] status_state(c) && c.len() >= 9 ==>
            exists|t: Time, rest: Seq<u8>| c == #[trigger] (enc_status_bytes(t) + rest),
{
    axiom_enc_time();
    assert forall|c: Seq<u8>| #[trigger] status_state(c) && c.len() >= 9 implies
            exists|t: Time, rest: Seq<u8>| c == #[trigger] (enc_status_bytes(t) + rest) by {
        let (t2, n) = choose|t2: Time, n: int| 0 <= n <= enc_status_bytes(t2).len() && c == #[trigger] enc_status_bytes(t2).subrange(0, n);
        assert(enc_status_bytes(t2).len() == 9);
        assert(c =~= enc_status_bytes(t2) + Seq::<u8>::empty());
    }
    assert forall|t: Time| (#[trigger] enc_status_bytes(t)).len() == 9 by {}
    assert forall|t: Time, rest: Seq<u8>| status_state(#[trigger] (enc_status_bytes(t) + rest))
            implies enc_status_bytes(t) + rest == enc_status_bytes(t) by {
        let c = enc_status_bytes(t) + rest;
        let (t2, n) = choose|t2: Time, n: int| 0 <= n <= enc_status_bytes(t2).len() && c == #[trigger] enc_status_bytes(t2).subrange(0, n);
        assert(enc_status_bytes(t2).len() == 9);
        assert(c.len() == 9 + rest.len());
        assert(rest.len() == 0);
        assert(c =~= enc_status_bytes(t));
    }
    assert forall|c: Seq<u8>| #[trigger] status_state(c) implies c.len() <= 9 by {
        let (t2, n) = choose|t2: Time, n: int| 0 <= n <= enc_status_bytes(t2).len() && c == #[trigger] enc_status_bytes(t2).subrange(0, n);
        assert(enc_status_bytes(t2).len() == 9);
    }
}

// Splitting a status encoding (followed by anything) into version octet and the rest.
proof fn lemma_status_split()
    ensures
        forall|t: Time, rest: Seq<u8>| #[trigger] (enc_status_bytes(t) + rest) == 0u8.enc() + (enc_time(t) + rest),
        forall|v: u8, a: Seq<u8>| (#[trigger] (v.enc() + a))[0] == v && (v.enc() + a).len() >= 1,
        forall|v: u8, a: Seq<u8>, b: Seq<u8>| #[trigger] (v.enc() + a) == #[trigger] (v.enc() + b) ==> a == b,
        forall|w: Seq<u8>, a: Seq<u8>, b: Seq<u8>| #[trigger] ((w + a) + b) == w + (a + b),
        forall|t: Time, rest: Seq<u8>| #[trigger] (enc_time(t) + rest) == t.enc() + rest,
{
    assert forall|t: Time, rest: Seq<u8>| #[trigger] (enc_status_bytes(t) + rest) == 0u8.enc() + (enc_time(t) + rest) by {
        assert(enc_status_bytes(t) + rest =~= 0u8.enc() + (enc_time(t) + rest));
    }
    assert forall|v: u8, a: Seq<u8>, b: Seq<u8>| #[trigger] (v.enc() + a) == #[trigger] (v.enc() + b) implies a == b by {
        assert((v.enc() + a).skip(1) =~= a);
        assert((v.enc() + b).skip(1) =~= b);
    }
    assert forall|w: Seq<u8>, a: Seq<u8>, b: Seq<u8>| #[trigger] ((w + a) + b) == w + (a + b) by {
        assert((w + a) + b =~= w + (a + b));
    }
}

// The prefixes of the two writes are prefixes of the whole encoding.
proof fn lemma_status_write(t: Time)
    ensures
        forall|n: int| 0 <= n <= 1 ==> #[trigger] 0u8.enc().subrange(0, n) == enc_status_bytes(t).subrange(0, n),
        forall|n: int| 0 <= n <= 8 ==> 0u8.enc() + #[trigger] enc_time(t).subrange(0, n) == enc_status_bytes(t).subrange(0, n + 1),
        0u8.enc() + enc_time(t) == enc_status_bytes(t),
        enc_status_bytes(t).len() == 9,
{
    axiom_enc_time();
    assert forall|n: int| 0 <= n <= 1 implies #[trigger] 0u8.enc().subrange(0, n) == enc_status_bytes(t).subrange(0, n) by {
        assert(0u8.enc().subrange(0, n) =~= enc_status_bytes(t).subrange(0, n));
    }
    assert forall|n: int| 0 <= n <= 8 implies 0u8.enc() + #[trigger] enc_time(t).subrange(0, n) == enc_status_bytes(t).subrange(0, n + 1) by {
        assert(0u8.enc() + enc_time(t).subrange(0, n) =~= enc_status_bytes(t).subrange(0, n + 1));
    }
}
